"""C07 A buffered flush never silently overwrites a file changed by someone else.

Engine A with a symbolic fault schedule: up to three buffered files, each with a role
(modified / read-only / untouched) and an outside-write time (never / before the first
buffered access / after it), every first-access order (= flush order), both context
kinds, optionally an explicit capacity on the backend-wide context.  The assertion is
the statement: error type, .files/.filename = exactly the conflicting set, outside
content intact, clean modified files written, read-only files not written, afterwards
buffer empty, size 0, capacity as before, every collection usable and showing the disk."""
import itertools

from vf import hlib, ops, bufprog
from vf.hlib import BUFFERED_FAMILIES, MISSING, case, fail, finish, get_env, pick, plain, eq_plain, same_tree, copy_tree, known

PID = "C07"
WHICH = ["dict", "list"]
PARTS = [(f, w) for f in BUFFERED_FAMILIES for w in WHICH]
ROLES = ["modified", "read", "untouched"]
TIMES = ["never", "before-first-access", "after-first-access"]
CTXS = ["backend", "backend-with-capacity", "objects"]


def nfiles():
    # three files (thorough) for one dict class per strategy; two files elsewhere
    if hlib.TIER == "thorough":
        fam, which = parts()[hlib.PART % len(parts())]
        if which == "dict" and not fam.attr:
            return 3
    return 2


def parts():
    return PARTS


def sched(ci: int, ra: int, rb: int, rc: int, ta: int, tb: int, tc: int, oi: int) -> bool:
    """
    post: _
    """
    env = get_env().reset()
    P = parts()
    fam, which = P[hlib.PART % len(P)]
    n = nfiles()
    ctx = pick(CTXS, ci)
    roles = [pick(ROLES, r) for r in (ra, rb, rc)[:n]]
    times = [pick(TIMES, t) for t in (ta, tb, tc)[:n]]
    orders = list(itertools.permutations(range(n)))
    order = pick(orders, oi)
    if ctx is None or None in roles or None in times or order is None:
        return finish(False, True)
    return ops.native(_run, env, fam, which, ctx, roles, times, order, (ci, ra, rb, rc, ta, tb, tc, oi))


def _doc(which, i):
    return {"p": i, "a": [i]} if which == "dict" else [i, [i]]


def _outside(which, i):
    return {"p": 100 + i, "out": [i, i]} if which == "dict" else [100 + i, [i, i], "out"]


def _run(env, fam, which, ctx, roles, times, order, args):
    n = len(roles)
    w = bufprog.BufWorld(env, fam, which)
    cls = w.cls
    names = [f"f{i}" for i in range(n)]
    for i, fn in enumerate(names):
        w.add_file(fn, _doc(which, i))
        w.add_obj(fn, fn)
    cap0 = cls.get_buffer_capacity()
    disk = {fn: copy_tree(w.ref[fn]) for fn in names}  # what is on disk according to us
    label = [f"{ctx}"] + [f"{fn}:{roles[i]}/{times[i]}" for i, fn in enumerate(names)] + ["order:" + "".join(map(str, order))]
    tokens_at_outside = {}

    def outside(i):
        fn = names[i]
        env.write_doc(fn, _outside(which, i))
        disk[fn] = _outside(which, i)
        tokens_at_outside[fn] = env.file_token(fn)

    errors = {}
    try:
        if ctx == "backend":
            w.enter_backend()
        elif ctx == "backend-with-capacity":
            w.enter_backend(cap0 * 2 + 7)
        else:
            for i in order:
                w.enter_obj(names[i])
        for i in order:
            fn = names[i]
            if times[i] == "before-first-access":
                outside(i)
            o = w.objs[fn]
            if roles[i] == "read":
                got = o()
                if not eq_plain(got, disk[fn]):
                    return finish(True, fail(lambda: f"{cls.__name__} {label}: first buffered read of {fn} returned {got!r}, disk holds {disk[fn]!r}"))
            elif roles[i] == "modified":
                if which == "dict":
                    o["q"] = 7
                else:
                    o.append(7)
        for i in order:
            if times[i] == "after-first-access":
                outside(i)
        conflicts = sorted(names[i] for i in range(n) if roles[i] == "modified" and times[i] == "after-first-access")
        # leave the buffered state
        if ctx in ("backend", "backend-with-capacity"):
            try:
                w.exit_innermost()
            except hlib.Crash:
                raise
            except Exception as e:
                errors["backend"] = e
        else:
            while w.stack:
                kind, c, nm = w.stack[-1]
                try:
                    w.exit_innermost()
                except hlib.Crash:
                    raise
                except Exception as e:
                    errors[nm] = e
    except hlib.Crash:
        raise
    except Exception as e:
        return finish(True, fail(lambda: f"{cls.__name__} {label}: raised {e!r} inside the buffered state"))
    case(cls.__name__, *label)
    from synced_collections.errors import BufferedError, MetadataError

    # 1. the error names exactly the conflicting files
    if ctx in ("backend", "backend-with-capacity"):
        e = errors.get("backend")
        if conflicts:
            if not isinstance(e, BufferedError):
                return finish(True, fail(lambda: f"{cls.__name__} {label}: conflicting files {conflicts} but the backend-wide exit raised {e!r} instead of BufferedError"))
            named = sorted(env_name(env, k) for k in e.files)
            if named != conflicts:
                return finish(True, fail(lambda: f"{cls.__name__} {label}: BufferedError names {named}, conflicting files are {conflicts}"))
            for k, v in e.files.items():
                if not isinstance(v, MetadataError):
                    return finish(True, fail(lambda: f"{cls.__name__} {label}: BufferedError.files[{k!r}] is {v!r}, not a MetadataError"))
        elif e is not None:
            return finish(True, fail(lambda: f"{cls.__name__} {label}: no conflicting file, but the exit raised {e!r}"))
    else:
        for fn in names:
            e = errors.get(fn)
            if fn in conflicts:
                if not isinstance(e, MetadataError) or env_name(env, e.filename) != fn:
                    return finish(True, fail(lambda: f"{cls.__name__} {label}: {fn} conflicts but its context exit raised {e!r} (expected MetadataError naming it)"))
            elif e is not None:
                return finish(True, fail(lambda: f"{cls.__name__} {label}: {fn} does not conflict but its context exit raised {e!r}"))
    # 2. file contents
    for i, fn in enumerate(names):
        got = env.read_doc(fn)
        if fn in conflicts:
            want = disk[fn]
            why = "outside writer's content must be intact"
        elif roles[i] == "modified":
            want = copy_tree(disk[fn])
            if which == "dict":
                want["q"] = 7
            else:
                want.append(7)
            why = "clean modified file must be written"
        else:
            want = disk[fn]
            why = "read-only/untouched file must keep the disk content"
        if got is MISSING or not same_tree(got, plain(want)):
            return finish(True, fail(lambda: f"{cls.__name__} {label}: {fn} holds {got!r}, expected {want!r} ({why})"))
        if roles[i] != "modified" and fn in tokens_at_outside and env.file_token(fn) != tokens_at_outside[fn]:
            return finish(True, fail(lambda: f"{cls.__name__} {label}: {fn} was only {roles[i]} but has been rewritten by the flush"))
    # 3. bookkeeping
    size, recomputed, entries = w.buffer_state()
    if size != 0 or entries != 0:
        return finish(True, fail(lambda: f"{cls.__name__} {label}: after the contexts exited buffer size is {size}, entries {entries}"))
    if cls.get_buffer_capacity() != cap0:
        fp = {"what": "capacity-not-restored", "error": bool(errors)}
        if known(PID, fp, args):
            return finish(True, True)
        return finish(True, fail(lambda: f"{cls.__name__} {label}: buffer capacity is {cls.get_buffer_capacity()} after the context, was {cap0}"))
    if cls.backend_is_buffered() or any(bool(o.buffered) for o in w.objs.values()):
        return finish(True, fail(lambda: f"{cls.__name__} {label}: a context still counts as active after exit"))
    # 4. every collection is usable and shows what is on disk
    for i, fn in enumerate(names):
        try:
            got = w.objs[fn]()
            now = env.read_doc(fn)
            if not eq_plain(got, now):
                return finish(True, fail(lambda: f"{cls.__name__} {label}: afterwards {fn} reads {got!r}, disk holds {now!r}"))
            if which == "dict":
                w.objs[fn]["z"] = 1
            else:
                w.objs[fn].append(1)
            now2 = env.read_doc(fn)
            if which == "dict":
                now["z"] = 1
            else:
                now.append(1)
            if not same_tree(now2, now):
                return finish(True, fail(lambda: f"{cls.__name__} {label}: a write to {fn} after the failed flush gives {now2!r}, expected {now!r}"))
        except hlib.Crash:
            raise
        except Exception as e:
            return finish(True, fail(lambda: f"{cls.__name__} {label}: {fn} unusable afterwards: {e!r}"))
    # 5. a later backend-wide context starts clean
    try:
        with cls.buffer_backend():
            pass
    except Exception as e:
        return finish(True, fail(lambda: f"{cls.__name__} {label}: a later empty backend-wide context raised {e!r}"))
    return finish(True, True)


# ----------------------------------------------------------------------------------
# token programs on ONE file reached through two collection instances (+ a bystander
# file): any order of buffered reads/writes and an outside write, file existing or
# missing when it enters the buffer
# ----------------------------------------------------------------------------------
PTOK = ["A.read", "A.write", "B.read", "B.write", "outside"]
PCTX = ["backend", "objects-A-only", "backend-capacity"]
PINIT = ["existing", "missing"]


def prog_len():
    return 4 if hlib.TIER == "thorough" else 3


def prog(ci: int, ii: int, t1: int, t2: int, t3: int, t4: int) -> bool:
    """
    post: _
    """
    env = get_env().reset()
    P = parts()
    fam, which = P[hlib.PART % len(P)]
    ctx = pick(PCTX, ci)
    init = pick(PINIT, ii)
    toks = [pick(PTOK, t) for t in (t1, t2, t3, t4)[:prog_len()]]
    if ctx is None or init is None or None in toks:
        return finish(False, True)
    if ctx == "objects-A-only" and any(t.startswith("B.") for t in toks):
        return finish(False, True)
    return ops.native(_run_prog, env, fam, which, ctx, init, toks)


def _run_prog(env, fam, which, ctx, init, toks):
    from synced_collections.errors import BufferedError, MetadataError

    w = bufprog.BufWorld(env, fam, which)
    cls = w.cls
    w.add_file("f", _doc(which, 0) if init == "existing" else MISSING)
    w.add_file("g", _doc(which, 1))
    A = w.add_obj("A", "f")
    B = w.add_obj("B", "f")
    G = w.add_obj("G", "g")
    cap0 = cls.get_buffer_capacity()
    label = f"{cls.__name__} [{ctx}, file {init}] {toks}"
    disk = copy_tree(w.ref["f"]) if init == "existing" else MISSING
    buffered = None  # content of the buffered copy once the file has entered the buffer
    entered = False
    modified = False
    changed_outside_after_entry = False
    n_out = 0
    counter = 0
    err = None
    try:
        if ctx == "backend":
            w.enter_backend()
        elif ctx == "backend-capacity":
            w.enter_backend(cap0 * 2 + 7)
        else:
            w.enter_obj("A")
        if which == "dict":
            G["q"] = 1
        else:
            G.append(1)
        for t in toks:
            if t == "outside":
                n_out += 1
                new = _outside(which, n_out)
                env.write_doc("f", new)
                disk = copy_tree(new)
                if entered:
                    changed_outside_after_entry = True
                continue
            o = A if t[0] == "A" else B
            if not entered:
                entered = True
                buffered = copy_tree(disk) if disk is not MISSING else ({} if which == "dict" else [])
            if t.endswith("read"):
                got = o()
                if not eq_plain(got, buffered):
                    return finish(True, fail(lambda: f"{label}: {t} returned {got!r}, the buffered copy holds {buffered!r}"))
            else:
                counter += 1
                if which == "dict":
                    o["w%d" % counter] = counter
                    buffered["w%d" % counter] = counter
                else:
                    o.append(counter)
                    buffered.append(counter)
                modified = True
        try:
            w.exit_innermost()
        except hlib.Crash:
            raise
        except Exception as e:
            err = e
    except hlib.Crash:
        raise
    except Exception as e:
        return finish(True, fail(lambda: f"{label}: raised {e!r} inside the buffered state"))
    case(cls.__name__, ctx, init, *toks)
    conflict = entered and modified and changed_outside_after_entry
    if conflict:
        if ctx == "objects-A-only":
            good = isinstance(err, MetadataError) and env_name(env, err.filename) == "f"
        else:
            good = isinstance(err, BufferedError) and sorted(env_name(env, k) for k in err.files) == ["f"] and all(isinstance(v, MetadataError) for v in err.files.values())
        if not good:
            return finish(True, fail(lambda: f"{label}: the file changed outside after it entered the buffer and the buffered copy was modified, but leaving the context raised {err!r}; file now holds {env.read_doc('f')!r}, the outside writer left {disk!r}"))
        want = disk
    else:
        if err is not None:
            return finish(True, fail(lambda: f"{label}: no conflict, but leaving the context raised {err!r}"))
        want = buffered if (entered and modified) else disk
    got = env.read_doc("f")
    if want is MISSING:
        if not (got is MISSING or got in ({}, [])):
            return finish(True, fail(lambda: f"{label}: file holds {got!r}, expected it to stay missing/empty"))
    elif got is MISSING or not same_tree(got, plain(want)):
        return finish(True, fail(lambda: f"{label}: file holds {got!r}, expected {want!r} ({'outside content must survive' if conflict else 'buffered content must be written' if modified else 'disk content must be untouched'})"))
    gg = env.read_doc("g")
    gw = _doc(which, 1)
    if which == "dict":
        gw["q"] = 1
    else:
        gw.append(1)
    if gg is MISSING or not same_tree(gg, gw):
        return finish(True, fail(lambda: f"{label}: bystander file holds {gg!r}, expected {gw!r}"))
    size, recomputed, entries = w.buffer_state()
    if size != 0 or entries != 0 or cls.get_buffer_capacity() != cap0:
        return finish(True, fail(lambda: f"{label}: afterwards buffer size {size}, entries {entries}, capacity {cls.get_buffer_capacity()} (was {cap0})"))
    for name, o in (("A", A), ("B", B)):
        try:
            now = env.read_doc("f")
            r = o()
            if now is MISSING:
                now = {} if which == "dict" else []
            if not eq_plain(r, now):
                return finish(True, fail(lambda: f"{label}: afterwards {name} reads {r!r}, disk holds {now!r}"))
        except hlib.Crash:
            raise
        except Exception as e:
            return finish(True, fail(lambda: f"{label}: {name} unusable afterwards: {e!r}"))
    return finish(True, True)


# ----------------------------------------------------------------------------------
# capacity-forced flushes: with capacity 0 every buffered write flushes at once, so the
# conflict is met in the middle of the context instead of at its exit
# ----------------------------------------------------------------------------------
def forced(ii: int, t1: int, t2: int, t3: int, t4: int) -> bool:
    """
    post: _
    """
    env = get_env().reset()
    P = parts()
    fam, which = P[hlib.PART % len(P)]
    init = pick(PINIT, ii)
    toks = [pick(PTOK, t) for t in (t1, t2, t3, t4)[:prog_len()]]
    if init is None or None in toks:
        return finish(False, True)
    return ops.native(_run_forced, env, fam, which, init, toks)


def _run_forced(env, fam, which, init, toks):
    from synced_collections.errors import BufferedError, MetadataError

    w = bufprog.BufWorld(env, fam, which)
    cls = w.cls
    retains = fam.buffered == "memory"  # a forced flush keeps the entry (shared-memory) or drops it (serialized)
    w.add_file("f", _doc(which, 0) if init == "existing" else MISSING)
    A = w.add_obj("A", "f")
    B = w.add_obj("B", "f")
    cap0 = cls.get_buffer_capacity()
    label = f"{cls.__name__} [buffer_backend(0), file {init}] {toks}"
    empty = {} if which == "dict" else []
    disk = copy_tree(w.ref["f"]) if init == "existing" else MISSING
    buffered, in_buffer, changed, poisoned = None, False, False, False
    n_out = counter = 0
    exit_err = None
    try:
        w.enter_backend(0)
        for t in toks:
            if t == "outside":
                n_out += 1
                disk = _outside(which, n_out)
                env.write_doc("f", disk)
                if in_buffer:
                    changed = True
                continue
            o = A if t[0] == "A" else B
            if not in_buffer:
                in_buffer, changed = True, False
                buffered = copy_tree(disk) if disk is not MISSING else copy_tree(empty)
            if t.endswith("read"):
                try:
                    got = o()
                except hlib.Crash:
                    raise
                except Exception as e:
                    return finish(True, fail(lambda: f"{label}: {t} raised {e!r}"))
                if not eq_plain(got, buffered):
                    return finish(True, fail(lambda: f"{label}: {t} returned {got!r}, the buffered copy holds {buffered!r}"))
                if not retains:
                    in_buffer = False  # serialized strategy: size counts every buffered byte, so with capacity 0 even a read is flushed out at once
                continue
            counter += 1
            err = None
            try:
                if which == "dict":
                    o["w%d" % counter] = counter
                else:
                    o.append(counter)
            except hlib.Crash:
                raise
            except Exception as e:
                err = e
            if which == "dict":
                buffered["w%d" % counter] = counter
            else:
                buffered.append(counter)
            conflict = changed
            if conflict:
                good = isinstance(err, BufferedError) and sorted(env_name(env, k) for k in err.files) == ["f"] and all(isinstance(v, MetadataError) for v in err.files.values())
                if not good:
                    return finish(True, fail(lambda: f"{label}: the write {t} forces a flush of a file that changed outside after it entered the buffer, but the call {'returned normally' if err is None else 'raised ' + repr(err)}; file now holds {env.read_doc('f')!r}, the outside writer left {disk!r}"))
                # the refused flush reported the buffered modifications as lost; the entry is
                # dropped (as after a refused exit flush), so the file re-enters the buffer
                # from disk at its next access
                poisoned = True
                in_buffer, changed = False, False
            else:
                if err is not None:
                    return finish(True, fail(lambda: f"{label}: no conflict at {t}, but the call raised {err!r}"))
                disk = copy_tree(buffered)
                if not retains:
                    in_buffer = False
                changed = False
        try:
            w.exit_innermost()
        except hlib.Crash:
            raise
        except Exception as e:
            exit_err = e
    except hlib.Crash:
        raise
    except Exception as e:
        return finish(True, fail(lambda: f"{label}: raised {e!r} inside the buffered state"))
    case(cls.__name__, "forced", init, *toks)
    if exit_err is not None:
        return finish(True, fail(lambda: f"{label}: leaving the context raised {exit_err!r} although every write was flushed (or refused and dropped) when it was made"))
    got = env.read_doc("f")
    if disk is MISSING:
        if not (got is MISSING or got in ({}, [])):
            return finish(True, fail(lambda: f"{label}: file holds {got!r}, expected it to stay missing/empty"))
    elif got is MISSING or not same_tree(got, plain(disk)):
        return finish(True, fail(lambda: f"{label}: file holds {got!r}, expected {disk!r} ({'the outside content must survive the refused flush; ' if poisoned else ''}every accepted forced flush must have written the buffered content)"))
    size, recomputed, entries = w.buffer_state()
    if size != 0 or entries != 0 or cls.get_buffer_capacity() != cap0:
        return finish(True, fail(lambda: f"{label}: after the context exited: buffer size {size}, entries {entries}, capacity {cls.get_buffer_capacity()} (was {cap0})"))
    now = env.read_doc("f")
    now = copy_tree(empty) if now is MISSING else now
    for name, o in (("A", A), ("B", B)):
        try:
            r = o()
            if not eq_plain(r, now):
                return finish(True, fail(lambda: f"{label}: afterwards {name} reads {r!r}, disk holds {now!r}"))
            with cls.buffer_backend():
                r2 = o()
            if not eq_plain(r2, now):
                return finish(True, fail(lambda: f"{label}: in a later buffered context {name} reads {r2!r}, disk holds {now!r}"))
        except hlib.Crash:
            raise
        except Exception as e:
            return finish(True, fail(lambda: f"{label}: {name} unusable afterwards: {e!r}"))
    return finish(True, True)


def env_name(env, path):
    import os

    return os.path.basename(str(path))


def plan(tier):
    if tier == "quick":
        return [{"fn": "sched", "nparts": len(PARTS), "timeout": 300}, {"fn": "prog", "nparts": len(PARTS), "timeout": 300}, {"fn": "forced", "nparts": len(PARTS), "timeout": 300}]
    return [{"fn": "sched", "nparts": len(PARTS), "timeout": 2400}, {"fn": "prog", "nparts": len(PARTS), "timeout": 2400}, {"fn": "forced", "nparts": len(PARTS), "timeout": 2400}]


def smoke(tier):
    out = []
    for part in range(len(PARTS)):
        for ci in range(3):
            for ra in range(3):
                for ta in range(3):
                    out.append(("sched", (ci, ra, (ra + 1) % 3, 0, ta, (ta + 2) % 3, 0, (ra + ta) % 2), part, len(PARTS)))
    for part in range(len(PARTS)):
        for ci in range(3):
            for ii in range(2):
                for t1 in range(5):
                    out.append(("prog", (ci, ii, t1 if ci != 1 else t1 % 2, (t1 + ci) % 2, 4 if ii else 1, 1), part, len(PARTS)))
                    out.append(("forced", (ii, t1, (t1 + ci + 1) % 5, 4 if ci else 1, 1), part, len(PARTS)))
    return out


FUNCTIONS = [
    "synced_collections.buffers.file_buffered_collection:FileBufferedCollection._flush_buffer",
    "synced_collections.buffers.file_buffered_collection:_FileBufferedContext.__enter__",
    "synced_collections.buffers.file_buffered_collection:_FileBufferedContext.__exit__",
    "synced_collections.buffers.file_buffered_collection:FileBufferedCollection._get_file_metadata",
    "synced_collections.buffers.serialized_file_buffered_collection:SerializedFileBufferedCollection._flush",
    "synced_collections.buffers.serialized_file_buffered_collection:SerializedFileBufferedCollection._initialize_data_in_buffer",
    "synced_collections.buffers.memory_buffered_collection:SharedMemoryFileBufferedCollection._flush",
    "synced_collections.buffers.memory_buffered_collection:SharedMemoryFileBufferedCollection._initialize_data_in_buffer",
    "synced_collections.buffers.memory_buffered_collection:SharedMemoryFileBufferedCollection._save_to_buffer",
    "synced_collections.errors:BufferedError.__init__",
]
BOUNDS = {"quick": {"classes": 8, "files": 2, "roles": ROLES, "outside_write_times": TIMES, "orders": "all first-access orders", "contexts": CTXS},
          "thorough": {"classes": 8, "files": "3 for BufferedJSONDict and MemoryBufferedJSONDict, 2 elsewhere", "single_file_programs": "4 tokens"}}
ASSUMPTIONS = ["an outside write changes the file's size or mtime_ns (the library's own detection limit; the FS model's clock is strictly increasing and the real-mode writer bumps mtime if needed)", "finite schedule space explored exhaustively through the solver's path tree; decided schedules run natively"]
OUTSIDE = ["more than 3 files", "more than 3 (4 thorough) tokens per single-file program", "capacity-forced flushes in the middle of the schedule (C15)"]
