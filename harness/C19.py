"""C19 How a value is classified never depends on what was processed before.

Engine B (vf/kernel_smt.py), for every module-level AbstractTypeResolver of the library:
* lemma L - the identifier callables, translated from their current AST over an abstract
  object (uninterpreted concrete type, `isinstance` as a predicate of the type with the
  real classes' subclass axioms, anything else per-instance unknown): two objects of one
  type that is not blocklisted never classify differently;
* step - the current source of `get_type` executed symbolically from an ARBITRARY memo
  state that satisfies the invariant "an entry for T holds the classification of some object
  of type T, and T is not blocklisted": the result equals the fresh classification and
  every store keeps the invariant.  L + step cover query histories of any length.

Engine A (CrossHair on the real code):
* `values`   - symbolic instance values (float incl. nan/inf, int, str, bool, list length)
  of one type through every real resolver, warm vs cold;
* `orders`   - every ordered history (length <= 2, thorough 3) over a pool of values of
  diverse types (built-ins, subclasses, user Mapping/Sequence, both, neither, subclass of a
  pool type that adds a category) fed through the real validators and the real collections
  before the probed operation; outcome (accepted/rejected, exception class, stored form,
  node classes) must equal the outcome from the import-time state."""
import collections
import collections.abc as cabc
import copy
import importlib
import sys
import time
import types

from vf import hlib
from vf.hlib import FAMILIES, MISSING, case, fail, finish, get_env, pick, plain, copy_tree, same_tree

PID = "C19"

# ======================================================================================
# value / type pool
# ======================================================================================


class UserMapping(cabc.Mapping):
    def __init__(self, d=None):
        self._d = dict(d or {"a": 1})

    def __getitem__(self, k):
        return self._d[k]

    def __iter__(self):
        return iter(self._d)

    def __len__(self):
        return len(self._d)


class UserSequence(cabc.Sequence):
    def __init__(self, seq=None):
        self._s = list(seq if seq is not None else [1, 2])

    def __getitem__(self, i):
        return self._s[i]

    def __len__(self):
        return len(self._s)


class Table(UserMapping):
    """A user Mapping ..."""


class IndexedTable(Table, cabc.Sequence):
    """... and a subclass of it that is also a Sequence (two categories; its first-listed
    category differs from its parent's)."""

    def __getitem__(self, k):
        if isinstance(k, int):
            return list(self._d)[k]
        return self._d[k]


class Row(cabc.Mapping, cabc.Sequence):
    """Mapping and Sequence at once, no categorised ancestor."""

    def __init__(self):
        self._d = {"a": 1, "b": 2}

    def __getitem__(self, k):
        if isinstance(k, int):
            return list(self._d)[k]
        return self._d[k]

    def __iter__(self):
        return iter(self._d)

    def __len__(self):
        return len(self._d)


class SeqFirst(UserSequence):
    pass


class SeqThenMap(SeqFirst, cabc.Mapping):
    def __init__(self):
        self._d = {"a": 1}
        self._s = ["a"]

    def __getitem__(self, k):
        if isinstance(k, int):
            return self._s[k]
        return self._d[k]

    def __iter__(self):
        return iter(self._d)

    def __len__(self):
        return 1


class MyDict(dict):
    pass


class MyList(list):
    pass


class MyStr(str):
    pass


class MyInt(int):
    pass


class MyFloat(float):
    pass


class Plain:
    """Neither mapping nor sequence nor scalar."""

    def __eq__(self, other):
        return isinstance(other, Plain)

    def __hash__(self):
        return 7


Point = collections.namedtuple("Point", "x y")

POOL = [
    ("dict", lambda: {"a": 1}), ("dict-empty", lambda: {}), ("list", lambda: [1, 2]), ("list-empty", lambda: []), ("tuple", lambda: (1, 2)),
    ("str", lambda: "s"), ("str-empty", lambda: ""), ("int", lambda: 3), ("int-big", lambda: 2 ** 70), ("bool", lambda: True), ("none", lambda: None),
    ("float", lambda: 1.5), ("float-nan", lambda: float("nan")), ("float-inf", lambda: float("inf")),
    ("MyDict", lambda: MyDict(a=1)), ("MyList", lambda: MyList([1])), ("MyStr", lambda: MyStr("m")), ("MyInt", lambda: MyInt(4)), ("MyFloat", lambda: MyFloat(2.5)),
    ("OrderedDict", lambda: collections.OrderedDict(a=1)), ("defaultdict", lambda: collections.defaultdict(int, a=1)), ("namedtuple", lambda: Point(1, 2)),
    ("UserMapping", lambda: UserMapping()), ("UserSequence", lambda: UserSequence()), ("Table", lambda: Table()), ("IndexedTable", lambda: IndexedTable()),
    ("Row", lambda: Row()), ("SeqFirst", lambda: SeqFirst()), ("SeqThenMap", lambda: SeqThenMap()),
    ("Plain", lambda: Plain()), ("set", lambda: {1}), ("bytes", lambda: b"x"), ("complex", lambda: 1j), ("range", lambda: range(2)),
    ("dict-nonstr-key", lambda: {1: 2}), ("dict-dot-key", lambda: {"a.b": 1}), ("list-of-dict", lambda: [{"a": 1}]), ("dict-of-list", lambda: {"a": [1]}),
    ("deque", lambda: collections.deque([1])), ("mappingproxy", lambda: types.MappingProxyType({"a": 1})),
]
POOL_NAMES = [n for n, _ in POOL]
# histories of length 3 are taken over the structurally interesting part of the pool
CORE = ["dict", "list", "tuple", "float", "float-nan", "MyDict", "UserMapping", "UserSequence", "Table", "IndexedTable", "Row", "SeqFirst", "SeqThenMap", "Plain"]


def mk(name):
    for n, f in POOL:
        if n == name:
            return f()
    raise KeyError(name)


# ======================================================================================
# "fresh process" state
# ======================================================================================
_SNAP = None


def lib_modules():
    return [m for n, m in sorted(sys.modules.items()) if n.startswith("synced_collections") and isinstance(m, types.ModuleType)]


def resolvers():
    from synced_collections.utils import AbstractTypeResolver

    out = []
    for m in lib_modules():
        for n, v in sorted(vars(m).items()):
            if isinstance(v, AbstractTypeResolver) and all(v is not r for _, _, r in out):
                out.append((m.__name__, n, v))
    return out


def snapshot():
    """Module-level mutable state of the library right after import (= a fresh process)."""
    global _SNAP
    if _SNAP is not None:
        return
    snap = []
    for m in lib_modules():
        for n, v in list(vars(m).items()):
            if n.startswith("__"):
                continue
            if isinstance(v, (dict, list, set)):
                snap.append((m, n, v, copy.copy(v)))
    _SNAP = snap


def cold():
    """Back to the import-time state: resolver memos empty, module-level containers as
    they were, lru caches cleared.  Native (outside the tracer)."""
    def _do():
        snapshot()
        for m, n, obj, saved in _SNAP:
            try:
                if isinstance(obj, dict):
                    obj.clear()
                    obj.update(saved)
                elif isinstance(obj, list):
                    obj[:] = saved
                else:
                    obj.clear()
                    obj.update(saved)
                if vars(m).get(n) is not obj:
                    setattr(m, n, obj)
            except Exception:
                pass
        for m in lib_modules():
            for n, v in list(vars(m).items()):
                if type(v).__name__ == "_lru_cache_wrapper":
                    try:
                        v.cache_clear()
                    except Exception:
                        pass
                elif isinstance(v, (dict, list, set)) and not n.startswith("__") and not any(o is v for _, _, o, _ in _SNAP):
                    # a module-level container created after import: not part of a fresh process
                    try:
                        v.clear()
                    except Exception:
                        pass
        for _, _, r in resolvers():
            r.type_map = {}

    try:
        from crosshair.tracers import NoTracing, is_tracing

        if is_tracing():
            with NoTracing():
                return _do()
    except ImportError:
        pass
    return _do()


# ======================================================================================
# Engine A: symbolic instance values through the real resolvers
# ======================================================================================


def classify_all(v):
    out = []
    for _, _, r in resolvers():
        out.append(r.get_type(v))
    return out


VALUE_KINDS = ["float", "int", "str", "list", "dict", "tuple", "bool", "MyFloat", "UserSequence"]


def values(k: int, f1: float, f2: float, i1: int, i2: int, s1: str, s2: str, n1: int, n2: int) -> bool:
    """
    pre: 0 <= n1 <= 2 and 0 <= n2 <= 2 and len(s1) <= 2 and len(s2) <= 2
    post: _
    """
    get_env().reset()
    kind = VALUE_KINDS[hlib.PART % len(VALUE_KINDS)]
    if k != 0:
        return finish(False, True)
    if kind == "float":
        a, b = f1, f2
    elif kind == "int":
        a, b = i1, i2
    elif kind == "str":
        a, b = s1, s2
    elif kind == "list":
        a, b = [0] * n1, [0] * n2
    elif kind == "dict":
        a, b = ({"k": i1} if n1 else {}), ({"k": i2, "j": 0} if n2 else {})
    elif kind == "tuple":
        a, b = (0,) * n1, (0,) * n2
    elif kind == "bool":
        a, b = (i1 > 0), (i2 > 0)
    elif kind == "MyFloat":
        a, b = MyFloat(1.5 if n1 else float("inf")), MyFloat(2.5 if n2 else float("nan"))
    else:
        a, b = UserSequence([0] * n1), UserSequence([0] * n2)
    cold()
    warm = None
    classify_all(a)
    warm = classify_all(b)
    cold()
    fresh = classify_all(b)
    case(kind)
    if warm != fresh:
        return finish(True, fail(lambda: f"{kind}: after classifying {a!r}, {b!r} is classified {warm!r}; from a fresh state {fresh!r} (resolvers {[n for _, n, _ in resolvers()]})"))
    return finish(True, True)


# ======================================================================================
# Engine A: histories through validators and collections
# ======================================================================================
PROBES = ["resolver", "validators", "setitem", "append", "update", "ctor", "reload-eq"]
ORDER_FAMS = ["JSON", "JSONAttr", "MemoryBufferedJSON", "Zarr", "Redis"]


def all_validators():
    from synced_collections import validators as V
    from synced_collections.backends import collection_json as CJ

    return [V.no_dot_in_key, V.require_string_key, V.json_format_validator, CJ.json_attr_dict_validator]


def describe(x):
    """Stored form: plain data + class names of the nodes."""
    SC = hlib._sc()
    if isinstance(x, SC):
        d = x._data
        if isinstance(d, dict):
            return (type(x).__name__, tuple((k, describe(v)) for k, v in d.items()))
        return (type(x).__name__, tuple(describe(v) for v in d))
    if isinstance(x, (dict, list, tuple)):
        return ("RAW-" + type(x).__name__, repr(x))
    if isinstance(x, float) and x != x:
        return ("float", "nan")
    return (type(x).__name__, x if isinstance(x, (int, float, str, bool, type(None))) else repr(type(x)))


def feed(env, fam, value, tag):
    """Warm-up: push a value through the validators and into a scratch collection."""
    for v in all_validators():
        try:
            v(value)
        except Exception:
            pass
    try:
        d = fam.make(env, "dict", "warm" + tag)
        d["w"] = value
    except hlib.Crash:
        raise
    except Exception:
        pass
    try:
        lst = fam.make(env, "list", "warml" + tag)
        lst.append(value)
    except hlib.Crash:
        raise
    except Exception:
        pass


def run_probe(env, fam, probe, value, tag):
    """-> outcome of the probed operation (hashable description)."""
    def guarded(f):
        try:
            return ("ok", f())
        except hlib.Crash:
            raise
        except Exception as e:
            return ("exc", type(e).__name__)

    if probe == "resolver":
        return ("cats", tuple(classify_all(value)))
    if probe == "validators":
        return tuple(guarded(lambda v=v: v(value))[0:2] if guarded(lambda v=v: v(value))[0] == "exc" else "ok" for v in all_validators())
    if probe == "setitem":
        def f():
            d = fam.make(env, "dict", "p" + tag)
            d["k"] = value
            return (describe(d), repr(fam.read(env, "p" + tag)))
        return guarded(f)
    if probe == "append":
        def f():
            lst = fam.make(env, "list", "p" + tag)
            lst.append(value)
            lst.append([value])
            return (describe(lst), repr(fam.read(env, "p" + tag)))
        return guarded(f)
    if probe == "update":
        def f():
            d = fam.make(env, "dict", "p" + tag)
            d["k"] = 0
            d.update({"k": value, "j": {"n": value}})
            return (describe(d), repr(fam.read(env, "p" + tag)))
        return guarded(f)
    if probe == "ctor":
        def f():
            if isinstance(value, cabc.Mapping):
                d = fam.make(env, "dict", "p" + tag, data=value)
            else:
                d = fam.make(env, "list", "p" + tag, data=value)
            return (describe(d), repr(fam.read(env, "p" + tag)))
        return guarded(f)
    if probe == "reload-eq":
        def f():
            d = fam.make(env, "dict", "p" + tag)
            d["k"] = {"a": 1}
            d["l"] = [1, 2]
            fam.write(env, "p" + tag, {"k": {"a": 1, "b": [2]}, "l": [1, {"c": 3}]})
            r1 = d == {"k": value}
            r2 = d["l"] == value
            return (describe(d), r1, r2)
        return guarded(f)
    raise AssertionError(probe)


def _orders_body(fam, n1, n2, pvn):
    env = get_env()
    env._reset()
    cold()
    for i, n in enumerate((n1, n2)):
        if n != "-":
            feed(env, fam, mk(n), str(i))
    warm = [run_probe(env, fam, probe, mk(pvn), "w") for probe in PROBES]
    env._reset()
    cold()
    fresh = [run_probe(env, fam, probe, mk(pvn), "w") for probe in PROBES]
    for probe, a, b in zip(PROBES, warm, fresh):
        if a != b:
            return False, f"{fam.name}: probe {probe} with a {pvn} value after the history [{n1}, {n2}] gives {a!r}; from a fresh state {b!r}"
    return True, ""


def second_pool(fam):
    if hlib.TIER != "thorough":
        return []
    return CORE if fam.name in ("JSON", "JSONAttr", "Zarr") else []


def orders(h1: int, h2: int, pv: int) -> bool:
    """
    post: _
    """
    get_env().reset()
    fam = hlib.FAM[ORDER_FAMS[hlib.PART % len(ORDER_FAMS)]]
    nsl = max(1, hlib.NPARTS // len(ORDER_FAMS))  # further split by the first warm-up value
    n1 = pick(POOL_NAMES[(hlib.PART // len(ORDER_FAMS))::nsl], h1)
    n2 = pick(["-"] + second_pool(fam), h2)
    pvn = pick(POOL_NAMES, pv)
    if None in (n1, n2, pvn):
        return finish(False, True)
    # everything below is concrete (selectors are realised): run it natively
    from vf import ops

    good, detail = ops.native(_orders_body, fam, n1, n2, pvn)
    case(fam.name, pvn, n1, n2)
    if not good:
        return finish(True, fail(lambda: detail))
    return finish(True, True)


def plan(tier):
    t = 300 if tier == "quick" else 900
    return [
        {"fn": "values", "nparts": len(VALUE_KINDS), "timeout": t},
        {"fn": "orders", "nparts": len(ORDER_FAMS) * (1 if tier == "quick" else 4), "timeout": t},
    ]


def smoke(tier):
    out = []
    for k in range(len(VALUE_KINDS)):
        out.append(("values", (0, float("nan"), 1.5, 0, 1, "", "a", 0, 2), k, len(VALUE_KINDS)))
        out.append(("values", (0, 1.5, float("inf"), 1, 0, "a", "", 2, 0), k, len(VALUE_KINDS)))
    n = len(POOL_NAMES)
    for part in range(len(ORDER_FAMS)):
        for h1 in range(n):
            out.append(("orders", (h1, 0, (h1 * 3 + 1 + part) % n), part, len(ORDER_FAMS)))
    return out


# ======================================================================================
# Engine B
# ======================================================================================


def engine_b(tier):
    import z3
    from vf import kernel_smt as K

    stats = K.Stats()
    out = {"obligations": 0, "discharged": 0, "violations": [], "inconclusive": [], "samples": [], "functions": set(), "resolvers": [], "validated": 0, "disagreements": []}
    for modname, name, R in resolvers():
        label = f"{modname}.{name}"
        out["resolvers"].append(label)
        idents = list(R.abstract_type_identifiers.items())
        cats = [k for k, _ in idents] + [None]
        block = tuple(R.cache_blocklist or ())

        def classify(it, node):
            for cat, f in idents:
                if it.truth(it.call(f, [node], {}, None)):
                    return cat
            return None

        def prove(notion):
            """L + step under one reading of 'blocklisted': the exact types listed, or the
            listed types and their subclasses.  The memo is invisible if the obligations
            discharge under some reading the code itself implements (the step obligation
            'only non-blocklisted types are stored' ties the reading to the code)."""
            res = {"obligations": 0, "discharged": 0, "violations": [], "inconclusive": [], "samples": [], "functions": set()}

            def blocked(w, T):
                if not block:
                    return z3.BoolVal(False)
                if notion == "exact":
                    return z3.Or(*[T == w.const_of(c) for c in block])
                return z3.Or(*[w.subp(c)(T) for c in block])

            # ---- lemma L -----------------------------------------------------------------
            try:
                w = K.World(width=0, depth=0)
                o1, o2 = w.new_node("o1"), w.new_node("o2")
                ex = K.Explorer(world=w, stats=stats)
                ex.base = [o1.T == o2.T, z3.Not(blocked(w, o1.T))]
                seen = set()

                def thunkL(ctx):
                    it = K.Interp(ctx, world=w)
                    try:
                        return (classify(it, o1), classify(it, o2))
                    finally:
                        seen.update(it.functions_seen)

                paths = ex.run(thunkL)
                res["functions"].update(seen)
                bad = [p for p in paths if p.kind == "return" and p.value[0] != p.value[1]]
                other = [p for p in paths if p.kind != "return"]
                res["obligations"] += 1
                if other:
                    res["inconclusive"].append(f"{label} lemma L: identifier raised / bound hit on {len(other)} paths ({other[0]!r})")
                elif not bad:
                    res["discharged"] += 1
                else:
                    for p in bad[:3]:
                        r, s = ex.check(p.conds)
                        if r == "sat":
                            res["violations"].append({"resolver": label, "obligation": "L", "what": f"two objects of one non-blocklisted type classify as {p.value[0]!r} and {p.value[1]!r}", "profile": profile(w, s.model(), o1), "path": [str(c) for c in p.conds][:12]})
                            break
                res["samples"].append({"resolver": label, "obligation": "L: same type => same category", "paths": len(paths), "result": "unsat" if not bad and not other else "sat"})
            except K.Unsupported as e:
                res["obligations"] += 1
                res["inconclusive"].append(f"{label} lemma L: outside the translated subset: {e}")
            # ---- step: get_type from an arbitrary invariant-respecting memo -----------------------
            try:
                w = K.World(width=0, depth=0)
                o, prev = w.new_node("o"), w.new_node("prev")
                smap = K.SMap(w, "memo", cats)
                ex = K.Explorer(world=w, stats=stats)
                ex.base = [o.T == prev.T]
                not_blocked = z3.Not(blocked(w, o.T))
                seen = set()
                get_type = type(R).get_type

                def thunkS(ctx):
                    it = K.Interp(ctx, world=w, resolver_maps={id(R): smap})
                    smap.reset()
                    try:
                        c_prev = classify(it, prev)
                        c = classify(it, o)
                        # invariant instance for this type: an entry was written for an object
                        # of this type (prev), whose type passed the blocklist test
                        ctx.conds.append(z3.Implies(smap.present(o.T), z3.And(smap.val(o.T) == cats.index(c_prev), not_blocked)))
                        r = it.call_python(get_type, [K.ResolverProxy(R, smap), o])
                        return (c_prev, c, r, list(smap.stores))
                    finally:
                        seen.update(it.functions_seen)

                paths = ex.run(thunkS)
                res["functions"].update(seen)
                res["obligations"] += 2
                bad_result, bad_store, other = [], [], []
                for p in paths:
                    if p.kind != "return":
                        other.append(p)
                        continue
                    r0, s0 = ex.check(p.conds)
                    if r0 == "unsat":
                        continue
                    c_prev, c, r, stores = p.value
                    if r != c:
                        bad_result.append((p, s0))
                    for key, val in stores:
                        if not isinstance(key, K.SType) or key.node is not o or val != c:
                            bad_store.append((p, s0, f"stores {val!r} under {key!r}, fresh classification {c!r}"))
                        else:
                            rb, sb = ex.check(p.conds + [z3.Not(not_blocked)])
                            if rb != "unsat":
                                bad_store.append((p, sb, "a blocklisted type is memoised"))
                if other:
                    res["inconclusive"].append(f"{label} step: get_type raised / bound hit on {len(other)} paths ({other[0]!r})")
                else:
                    if not bad_result:
                        res["discharged"] += 1
                    else:
                        p, s = bad_result[0]
                        res["violations"].append({"resolver": label, "obligation": "step-result", "what": f"get_type returns {p.value[2]!r} where the fresh classification is {p.value[1]!r} (memo entry written for an object classified {p.value[0]!r})", "profile": profile(w, s.model(), o) if s is not None and str(r0) != "unknown" else {}, "path": [str(c) for c in p.conds][:12]})
                    if not bad_store:
                        res["discharged"] += 1
                    else:
                        p, s, what = bad_store[0]
                        res["violations"].append({"resolver": label, "obligation": "step-store", "what": what, "profile": {}, "path": [str(c) for c in p.conds][:12]})
                res["samples"].append({"resolver": label, "obligation": "step: get_type(o) == fresh classification from any invariant-respecting memo", "paths": len(paths), "result": "unsat" if not (bad_result or bad_store or other) else "sat"})
            except K.Unsupported as e:
                res["obligations"] += 2
                res["inconclusive"].append(f"{label} step: outside the translated subset: {e}")
            for smp in res["samples"]:
                smp["blocklist_reading"] = notion
            for v in res["violations"]:
                v["blocklist_reading"] = notion
            return res

        attempts = [prove("exact")] + ([prove("subclass")] if block else [])
        best = min(attempts, key=lambda r: (r["obligations"] - r["discharged"], len(r["inconclusive"])))
        for k in ("obligations", "discharged"):
            out[k] += best[k]
        for k in ("violations", "inconclusive", "samples"):
            out[k].extend(best[k])
        out["functions"].update(best["functions"])
        # ---- translator validation: pool objects through the real callables and the encoding -------
        try:
            for pname, fac in POOL:
                obj = fac()
                real = None
                for cat, f in idents:
                    if f(obj):
                        real = cat
                        break
                w = K.World(width=0, depth=0)
                n = w.new_node("v")
                ex = K.Explorer(world=w, stats=stats)
                # pin the abstract type to the real object's type for every class mentioned
                def thunkV(ctx):
                    it = K.Interp(ctx, world=w)
                    return classify(it, n)
                paths = ex.run(thunkV)
                pins = [w.subp(c)(n.T) == z3.BoolVal(isinstance(obj, c)) for c in list(w.sub)]
                enc = set()
                for p in paths:
                    r, s = ex.check(p.conds + pins)
                    if r == "sat":
                        enc.add(p.value if p.kind == "return" else p.kind)
                out["validated"] += 1
                if real not in enc:
                    out["disagreements"].append(f"{label} on {pname}: real {real!r}, encoding {sorted(map(str, enc))}")
        except K.Unsupported as e:
            pass
    out["stats"] = stats
    return out


def engine_b_numpy(tier):
    """Engine B once more in a numpy-enabled interpreter (overlay /verif/.venv-np, built by
    setup.sh from the offline wheelhouse): there NUMPY is True, the identifier callables look
    at numpy.ndarray / ndim and the blocklist is non-empty.  Returns a summary dict or None."""
    import json as _json
    import os
    import subprocess

    root = os.path.dirname(os.path.dirname(os.path.abspath(__file__)))
    py = os.path.join(root, ".venv-np", "bin", "python")
    if not os.path.exists(py):
        return None
    code = ("import json; from vf import hlib; hlib.get_env('model'); import harness.C19 as c; b = c.engine_b(%r); "
            "import synced_collections.numpy_utils as nu; "
            "vs = [dict(v, replay=list(c.replay_b(v))) for v in b['violations']]; "
            "print('NPB ' + json.dumps({'numpy': nu.NUMPY, 'obligations': b['obligations'], 'discharged': b['discharged'], 'violations': vs, 'inconclusive': b['inconclusive'], "
            "'disagreements': b['disagreements'], 'validated': b['validated'], 'queries': b['stats'].queries, 'solver_s': b['stats'].solver_s, 'paths': b['stats'].paths, 'samples': b['samples'][:6]}, default=repr))") % tier
    env = dict(os.environ)
    env.pop("VF_MODE", None)
    env["PYTHONPATH"] = f"{os.environ.get('VF_REPO', '/repo')}:{root}"
    try:
        p = subprocess.run([py, "-c", code], capture_output=True, text=True, timeout=900, env=env, cwd=root)
    except Exception as e:
        return {"error": repr(e)}
    for line in p.stdout.splitlines():
        if line.startswith("NPB "):
            return _json.loads(line[4:])
    return {"error": (p.stdout + p.stderr)[-1500:]}


def profile(w, model, node):
    prof = {}
    for c, f in w.sub.items():
        try:
            prof[f"{c.__module__}.{c.__name__}"] = bool(model.eval(f(node.T), model_completion=True))
        except Exception:
            pass
    return prof


def replay_b(v):
    """Search the value pool for a concrete (earlier object, probed object) pair of one type
    on which the real resolver, freshly constructed, shows the solver's disagreement."""
    from synced_collections.utils import AbstractTypeResolver

    R = None
    for modname, name, r in resolvers():
        if f"{modname}.{name}" == v["resolver"]:
            R = r
    if R is None:
        return False, ["resolver not found"]
    by_type = {}
    extra = [("float2", lambda: 2.5), ("float-ninf", lambda: float("-inf")), ("int0", lambda: 0), ("int-neg", lambda: -1), ("str-dot", lambda: "a.b"), ("list2", lambda: [[1]]), ("dict2", lambda: {"a": {"b": 1}}),
             ("tuple-empty", lambda: ()), ("bool-f", lambda: False), ("MyDict2", lambda: MyDict()), ("MyList2", lambda: MyList()), ("UserSequence2", lambda: UserSequence([])), ("UserMapping2", lambda: UserMapping({})),
             ("MyFloat-nan", lambda: MyFloat("nan")), ("MyInt0", lambda: MyInt(0)), ("MyStr-empty", lambda: MyStr(""))]
    try:
        import numpy as np

        extra += [("ndarray-0d", lambda: np.array(1.0)), ("ndarray-1d", lambda: np.array([1.0, 2.0])), ("masked-0d", lambda: np.ma.masked_array(1.0)), ("masked-1d", lambda: np.ma.masked_array([1.0, 2.0])),
                  ("recarray-0d", lambda: np.array(1.0).view(np.recarray)), ("recarray-1d", lambda: np.array([1.0, 2.0]).view(np.recarray)), ("np-float64", lambda: np.float64(1.5)), ("np-int64", lambda: np.int64(3)), ("np-bool", lambda: np.bool_(True))]
    except ImportError:
        pass
    for n, f in POOL + extra:
        o = f()
        by_type.setdefault(type(o), []).append((n, o))
    block = tuple(R.cache_blocklist or ())
    for t, objs in by_type.items():
        for na, a in objs:
            for nb, b in objs:
                if na == nb:
                    continue
                r1 = type(R)(R.abstract_type_identifiers, R.cache_blocklist)
                r1.get_type(a)
                warm = r1.get_type(b)
                fresh = type(R)(R.abstract_type_identifiers, R.cache_blocklist).get_type(b)
                if warm != fresh:
                    return True, [f"{v['resolver']}: get_type({nb}) after get_type({na}) = {warm!r}; on a fresh resolver = {fresh!r}"]
    return False, ["no pair of pool values of one type reproduces the disagreement (the abstract type/instance may have no representative in the pool)"]


FUNCTIONS = [
    "synced_collections.utils:AbstractTypeResolver.get_type",
    "synced_collections.validators:no_dot_in_key",
    "synced_collections.validators:require_string_key",
    "synced_collections.validators:json_format_validator",
    "synced_collections.backends.collection_json:json_attr_dict_validator",
    "synced_collections.data_types.synced_collection:SyncedCollection._from_base",
    "synced_collections.data_types.synced_dict:SyncedDict.is_base_type",
    "synced_collections.data_types.synced_list:SyncedList.is_base_type",
    "synced_collections.data_types.synced_dict:SyncedDict._update",
    "synced_collections.data_types.synced_list:SyncedList._update",
    "synced_collections.data_types.synced_dict:SyncedDict.__eq__",
    "synced_collections.numpy_utils:_is_numpy_scalar",
    "synced_collections.numpy_utils:_is_atleast_1d_numpy_array",
]
BOUNDS = {
    "engine_B": "ALL concrete types and instances (uninterpreted type sort with the real classes' subclass axioms; per-instance unknowns for anything but isinstance); NUMPY as in this environment (False: numpy is not importable here); memo pre-state arbitrary subject to the invariant => histories of any length",
    "engine_A_values": "two instances of one type with symbolic value: float (reals + nan/inf), int, str (len <= 2), bool, list/tuple/dict of 0..2 elements, a float subclass, a user sequence; all module-level resolvers",
    "engine_A_orders": {"families": ORDER_FAMS, "pool": POOL_NAMES, "history": "quick: one warm-up value, every (warm-up, probe) pair of the pool; thorough: a second warm-up value from the core pool " + str(CORE) + " for the JSON, JSONAttr and Zarr families", "probes": PROBES},
}
ASSUMPTIONS = [
    "Engine B: isinstance(o, C) depends on type(o) only (no __instancecheck__ overrides that look at the instance); identifier callables are pure",
    "fresh process = import-time snapshot of every module-level container of the library, resolver memos empty, lru caches cleared (harness.C19.cold); state hidden elsewhere (closures, C extensions) is not reset",
    "NUMPY=False: the numpy branches of the identifiers are constant False in this environment; a numpy-enabled interpreter is outside this run",
]
OUTSIDE = ["numpy-enabled environments (numpy.ndarray subclasses are not exactly-blocklisted: see DESIGN.md)", "histories longer than 3 in Engine A (Engine B's inductive step covers them for the resolvers themselves)", "types outside the pool in Engine A"]
LEVEL = "model_checking"


def main(tier, seed):
    import harness.C19 as me
    from vf import run as vrun

    t0 = time.time()
    b = engine_b(tier)
    res = vrun.verify_A(me, tier, seed)
    seen = set()
    for v in b["violations"]:
        bad, detail = replay_b(v)
        res["traces_validated"] += 1
        rec = {"property": PID, "harness": "harness.C19.engine_b", "engine": "B", "counterexample": v, "replay": {"outcome": "fail" if bad else "pass", "detail": detail}}
        if bad:
            if v["resolver"] not in seen:
                seen.add(v["resolver"])
                res["violations"].append(rec)
        else:
            res["mismatch"].append({"what": "Engine B counterexample could not be realised with pool values", **rec})
    nb = engine_b_numpy(tier)
    np_cov = {"status": "numpy overlay not available: the NUMPY=True world was not examined"}
    if nb is None:
        res["inconclusive"].append("engine B (numpy world): overlay .venv-np missing")
    elif "error" in nb:
        res["inconclusive"].append("engine B (numpy world): " + str(nb["error"])[-400:])
        np_cov = {"status": "failed to run", "error": str(nb["error"])[-400:]}
    else:
        np_cov = {k: nb[k] for k in ("numpy", "obligations", "discharged", "validated", "queries", "paths", "samples")}
        np_cov["solver_seconds"] = round(nb["solver_s"], 2)
        res["queries"] += nb["queries"]
        res["solver_s"] += nb["solver_s"]
        res["traces_validated"] += nb["validated"] + len(nb["violations"])
        if not nb["numpy"]:
            res["inconclusive"].append("engine B (numpy world): numpy did not import in the overlay")
        for i in nb["inconclusive"]:
            res["inconclusive"].append("engine B (numpy world): " + i)
        for d in nb["disagreements"]:
            res["harness_errors"].append("translator validation (numpy world): " + d)
        for v in nb["violations"]:
            bad, detail = v.pop("replay")
            rec = {"property": PID, "harness": "harness.C19.engine_b (numpy-enabled interpreter)", "engine": "B", "counterexample": v, "replay": {"outcome": "fail" if bad else "pass", "detail": detail}}
            if bad:
                if ("np", v["resolver"]) not in seen:
                    seen.add(("np", v["resolver"]))
                    res["violations"].append(rec)
            else:
                res["mismatch"].append({"what": "Engine B counterexample (numpy world) could not be realised with pool values", **rec})
    res["traces_validated"] += b["validated"]
    for d in b["disagreements"]:
        res["harness_errors"].append("translator validation: " + d)
    if b["obligations"] == 0:
        res["harness_errors"].append("Engine B produced no obligation")
    for i in b["inconclusive"]:
        res["inconclusive"].append("engine B: " + i)
    st = b["stats"]
    res["queries"] += st.queries
    res["solver_s"] += st.solver_s
    res["wall_s"] = round(time.time() - t0, 2)
    extra = {"engine_B": {"resolvers": b["resolvers"], "obligations": b["obligations"], "discharged": b["discharged"], "kernel_paths": st.paths, "solver_queries": st.queries,
                          "solver_seconds": round(st.solver_s, 2), "solver_unknown": st.unknown, "translator_validation_runs": b["validated"],
                          "functions_translated": sorted(b["functions"]), "samples": b["samples"], "violations": b["violations"][:10]},
             "engine_B_numpy_world": np_cov}
    return vrun.finish(res, me, extra_cov=extra)
