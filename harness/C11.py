"""C11 Forbidden data never gets in: Engine A entry-point harness (C11a) and, when
available, the Engine B validator kernels (vf/kernel_smt.py)."""
from harness.C11a import *  # noqa: F401,F403
from harness import C11a as _a

PID = "C11"
reject = _a.reject
