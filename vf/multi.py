"""Several handles on one resource: two root objects A, B of the same class plus a
nested child of each (Ac, Bc) retained from before the program starts, and an outside
writer.  Shared by C02 (reads reflect the backend) and C04 (writes never clobber)."""
from . import hlib, ops
from .hlib import MISSING, at, copy_tree, eq_plain, is_plain, kind_of, plain, same_tree

HANDLES = ["A", "B", "Ac", "Bc"]

# root-level mutators that never touch the child position ("a" / index 0) through the
# parent: only after these does the parent's own child handle stay attached.
SAFE_ROOT = {
    "dict": {"setitem_replace", "setitem_new", "delitem", "delitem_missing", "pop", "pop_missing", "pop_missing_default",
             "update_map", "update_map_replace", "update_pairs", "update_kwargs", "update_map_kwargs", "update_nothing", "update_two_new",
             "setdefault_existing", "setdefault_new", "setdefault_new_nodefault"},
    "list": {"append", "extend", "extend_empty", "extend_tuple", "iadd"},
}


class Diverged(Exception):
    """Library and reference disagree on whether the operation raises."""


class World:
    def __init__(self, env, fam, which, doc, second=True):
        self.env = env
        self.fam = fam
        self.which = which
        fam.write(env, "r", doc)
        self.ref = copy_tree(doc)
        self.cpath = ("a",) if which == "dict" else (0,)
        self.obj = {"A": fam.make(env, which, "r")}
        if second:
            self.obj["B"] = fam.make(env, which, "r")
        self.ckind = kind_of(at(doc, self.cpath))
        self.att = {"A": True, "B": second, "Ac": False, "Bc": False}
        if self.ckind in ("dict", "list"):
            for r, c in (("A", "Ac"), ("B", "Bc")):
                if r in self.obj:
                    self.obj[c] = self.obj[r][self.cpath[0]]
                    self.att[c] = True

    def path(self, h):
        return () if h in ("A", "B") else self.cpath

    def kind(self, h):
        return self.which if h in ("A", "B") else self.ckind

    def resource(self):
        return self.fam.read(self.env, "r")

    # -- steps ------------------------------------------------------------------
    def outside(self, doc):
        """Outside writer replaces the whole resource."""
        self.fam.write(self.env, "r", doc)
        self.ref = copy_tree(doc)
        self._reattach(None, None)

    def _reattach(self, h, op):
        k = kind_of(at(self.ref, self.cpath)) if self._has_cpos() else "gone"
        for c in ("Ac", "Bc"):
            if self.att[c] and k != self.ckind:
                self.att[c] = False
        if h in ("A", "B") and op is not None and op.mut and op.name not in SAFE_ROOT[self.which]:
            self.att[h + "c"] = False

    def _has_cpos(self):
        r = self.ref
        k = self.cpath[0]
        if isinstance(r, dict):
            return k in r
        return isinstance(r, list) and len(r) > k

    def mutate(self, h, op, a_lib, a_ref):
        """Apply `op` through handle h and on the reference.  Returns (lib result,
        ref result) as ('ok'|'exc', value)."""
        try:
            r_lib = ("ok", op.fn(self.obj[h], a_lib))
        except hlib.Crash:
            raise
        except Exception as e:
            r_lib = ("exc", e)
        try:
            r_ref = ("ok", op.ref(at(self.ref, self.path(h)), a_ref))
        except Exception as e:
            r_ref = ("exc", e)
        if r_lib[0] != r_ref[0]:
            raise Diverged(op.name, r_lib, r_ref)
        self._reattach(h, op)
        return r_lib, r_ref

    # -- checks -----------------------------------------------------------------
    def resource_ok(self):
        got = self.resource()
        want = plain(self.ref)
        return got is not MISSING and is_plain(got) and same_tree(got, want), got, want

    def read_ok(self, h):
        """h() reflects the reference at h's position."""
        got = self.obj[h]()
        want = plain(at(self.ref, self.path(h)))
        return eq_plain(got, want) and is_plain(got), got, want

    def attached(self):
        return [h for h in HANDLES if self.att.get(h) and h in self.obj]


def probe_write(w, h):
    """A write through attached child h must land in the resource."""
    if w.kind(h) == "dict":
        op = ops.DICT_MUTATORS[1]  # setitem_new
    else:
        op = ops.LIST_MUTATORS[4]  # append
    a1, a2 = ops.A(v=777), ops.A(v=777)
    w.mutate(h, op, a1, a2)
    return w.resource_ok()
