"""Engine B: leaf kernels of the library translated from their *current* AST into z3.

A small symbolic evaluator for the Python subset the kernels use (if/elif/else, for over
concrete iterables and over bounded symbolic containers, try/except, raise, return,
isinstance/type/len, string predicates, membership in constant sets, calls into other
library functions and lambdas, recursion through summaries).  Symbolic inputs are

* ``SStr``  - a z3 String of unbounded length (attribute names, mapping keys),
* ``SNode`` - an abstract Python object: its concrete type is a constant of an
  uninterpreted sort ``Ty``; ``isinstance(o, C)`` becomes ``sub_C(T_o)`` with the subclass
  axioms of the real classes; attributes/predicates the translator cannot see into become
  per-instance uninterpreted functions; containers are unrolled to a stated width/depth,
* ``Recv``  - the receiver of the AttrDict kernels (item access and object attribute access
  are recorded as effects).

Branches on symbolic conditions fork the path (re-execution with a decision prefix, every
branch side checked for feasibility with z3), so the result of running a kernel is a list
of (path condition, outcome, effects).  Anything outside the subset raises ``Unsupported``:
the caller must then fall back to another engine or report the kernel as not decided -
never silently pass."""
import ast
import builtins
import inspect
import sys
import textwrap
import time
import types

import z3


class Unsupported(Exception):
    pass


class BoundHit(Exception):
    """A path needed a container element beyond the unrolling bound."""


class _Infeasible(Exception):
    pass


class _Return(BaseException):
    def __init__(self, value):
        self.value = value


class _Raise(BaseException):
    def __init__(self, exc):
        self.exc = exc


class _Break(BaseException):
    pass


class _Continue(BaseException):
    pass


# ----------------------------------------------------------------------------------
# symbolic values
# ----------------------------------------------------------------------------------


class SBool:
    def __init__(self, z):
        self.z = z


class SInt:
    def __init__(self, z):
        self.z = z


class SStr:
    def __init__(self, z):
        self.z = z

    def __repr__(self):
        return f"SStr({self.z})"


class SExc:
    """A raised exception: real class, (possibly symbolic) args."""

    def __init__(self, cls, args=(), cause=None):
        self.cls = cls
        self.args = args
        self.cause = cause

    def __repr__(self):
        return f"SExc({self.cls.__name__})"


class Opaque:
    """A value the evaluator does not look into (formatted messages ...)."""

    def __init__(self, what=""):
        self.what = what

    def __repr__(self):
        return f"Opaque({self.what})"


class SType:
    """type(o) of a symbolic object."""

    def __init__(self, node):
        self.node = node


class World:
    """z3 declarations shared by all symbolic objects of one encoding."""

    LAYOUT = [str, int, float, dict, list, tuple, type(None), bytes, bytearray, set, frozenset, complex]

    def __init__(self, width=2, depth=2, extra_classes=()):
        self.LAYOUT = list(type(self).LAYOUT)
        try:  # numpy.ndarray has its own C layout: no type is an ndarray and a str/int/dict/... at once
            import numpy

            self.LAYOUT.append(numpy.ndarray)
        except ImportError:
            pass
        self.Ty = z3.DeclareSort("Ty")
        self.width = width
        self.depth = depth
        self.sub = {}
        self.tyconst = {}
        self.nodes = []
        self.unknown_fns = {}
        self.extra = []
        for c in extra_classes:
            self.subp(c)

    def subp(self, cls):
        if cls not in self.sub:
            self.sub[cls] = z3.Function(f"sub_{cls.__module__.replace('.', '_')}_{cls.__name__}", self.Ty, z3.BoolSort())
        return self.sub[cls]

    def isinst(self, T, classes):
        if not isinstance(classes, tuple):
            classes = (classes,)
        out = []
        for c in classes:
            if isinstance(c, tuple):
                out.append(self.isinst(T, c))
            elif isinstance(c, type):
                out.append(self.subp(c)(T))
            else:
                raise Unsupported(f"isinstance against {c!r}")
        return z3.Or(*out) if out else z3.BoolVal(False)

    def const_of(self, cls):
        """The Ty constant standing for the real class `cls` (exact type)."""
        if cls not in self.tyconst:
            self.tyconst[cls] = z3.Const(f"ty_{cls.__module__.replace('.', '_')}_{cls.__name__}", self.Ty)
        return self.tyconst[cls]

    def unknown(self, name, sort):
        key = (name, str(sort))
        if key not in self.unknown_fns:
            self.unknown_fns[key] = z3.Function(f"unk_{name}", z3.IntSort(), sort)
        return self.unknown_fns[key]

    def new_node(self, name, depth=0):
        n = SNode(self, name, depth)
        self.nodes.append(n)
        return n

    def axioms(self):
        """Subclass axioms of the real classes for every type term in play, exactness
        of the type constants, layout conflicts between builtin base types, container
        bounds."""
        ax = list(self.extra)
        classes = list(self.sub)
        terms = [n.T for n in self.nodes] + list(self.tyconst.values())
        for T in terms:
            for a in classes:
                for b in classes:
                    if a is not b and _issub(a, b):
                        ax.append(z3.Implies(self.sub[a](T), self.sub[b](T)))
            lay = [c for c in classes if c in self.LAYOUT or c is bool]
            for i, a in enumerate(lay):
                for b in lay[i + 1:]:
                    if not _issub(a, b) and not _issub(b, a):
                        ax.append(z3.Not(z3.And(self.sub[a](T), self.sub[b](T))))
        for cls, c in self.tyconst.items():
            for a in classes:
                ax.append(self.sub[a](c) == z3.BoolVal(_issub(cls, a)))
        consts = list(self.tyconst.items())
        for i, (ca, a) in enumerate(consts):
            for cb, b in consts[i + 1:]:
                ax.append(a != b)
        for n in self.nodes:
            ax.append(n.len >= 0)
            ax.append(n.len <= (self.width if n.depth < self.depth else 0))
        return ax


def _issub(a, b):
    try:
        return issubclass(a, b)
    except TypeError:
        return False


class SNode:
    """Abstract Python object (see module docstring)."""

    def __init__(self, world, name, depth):
        self.world = world
        self.name = name
        self.depth = depth
        self.id = len(world.nodes)
        self.T = z3.Const(f"T_{name}", world.Ty)
        self.S = z3.String(f"S_{name}")
        self.len = z3.Int(f"len_{name}")
        self._children = {}
        self._keys = {}

    def child(self, i):
        if i >= self.world.width or self.depth >= self.world.depth:
            raise BoundHit(self.name)
        if i not in self._children:
            self._children[i] = self.world.new_node(f"{self.name}_{i}", self.depth + 1)
        return self._children[i]

    def key(self, i):
        if i >= self.world.width or self.depth >= self.world.depth:
            raise BoundHit(self.name)
        if i not in self._keys:
            k = self.world.new_node(f"{self.name}_k{i}", self.world.depth)  # keys are leaves
            k.key_of = (self, i)
            self._keys[i] = k
        return self._keys[i]

    def __repr__(self):
        return f"SNode({self.name})"


class SView:
    """items()/keys()/values()/iteration view of a symbolic container."""

    def __init__(self, node, kind):
        self.node = node
        self.kind = kind  # items | keys | values | elements


class Recv:
    """Receiver of the AttrDict kernels: `cls` supplies class attributes; item access and
    object attribute access are effects."""

    def __init__(self, cls):
        self.cls = cls


class _RecvMethod:
    def __init__(self, recv, name):
        self.recv = recv
        self.name = name


class _SuperProxy:
    def __init__(self, recv):
        self.recv = recv


class _SuperMethod:
    def __init__(self, recv, name):
        self.recv = recv
        self.name = name


class SItem:
    """Value returned by the modelled __getitem__(key)."""

    def __init__(self, key):
        self.key = key


class SMap:
    """The memo dict of a resolver: `present`/`val` are z3 functions of Ty (symbolic
    pre-state) or the map is cold (empty)."""

    def __init__(self, world, name, cats, cold=False):
        self.world = world
        self.cats = list(cats)  # possible stored values (category strings and None)
        self.cold = cold
        self.present = z3.Function(f"present_{name}", world.Ty, z3.BoolSort())
        self.val = z3.Function(f"val_{name}", world.Ty, z3.IntSort())
        self.stores = []  # (T, value) performed on this path

    def reset(self):
        self.stores = []


class ResolverProxy:
    """An AbstractTypeResolver instance whose memo is symbolic."""

    def __init__(self, real, smap):
        self.real = real
        self.smap = smap


# ----------------------------------------------------------------------------------
# path exploration
# ----------------------------------------------------------------------------------


class Stats:
    def __init__(self):
        self.queries = 0
        self.solver_s = 0.0
        self.paths = 0
        self.unknown = 0


class PathCtx:
    def __init__(self, ex, prefix):
        self.ex = ex
        self.prefix = prefix
        self.taken = []
        self.conds = []
        self.alternatives = []
        self.effects = []
        self.bound_hit = False
        self.fresh = 0

    def fresh_bool(self, name):
        self.fresh += 1
        return z3.Bool(f"{name}!{len(self.taken)}_{self.fresh}")

    def decide(self, b):
        if isinstance(b, bool):
            return b
        b = z3.simplify(b)
        if z3.is_true(b):
            return True
        if z3.is_false(b):
            return False
        i = len(self.taken)
        if i < len(self.prefix):
            choice = self.prefix[i]
        else:
            t = self.ex.feasible(self.conds + [b])
            f = self.ex.feasible(self.conds + [z3.Not(b)])
            if t and f:
                choice = True
                self.alternatives.append(self.taken + [False])
            elif t:
                choice = True
            elif f:
                choice = False
            else:
                raise _Infeasible()
        self.taken.append(choice)
        self.conds.append(b if choice else z3.Not(b))
        return choice


class PathResult:
    def __init__(self, conds, kind, value, effects, bound_hit=False):
        self.conds = conds
        self.kind = kind  # return | raise
        self.value = value
        self.effects = effects
        self.bound_hit = bound_hit

    @property
    def cond(self):
        return z3.And(*self.conds) if self.conds else z3.BoolVal(True)

    def __repr__(self):
        return f"<{self.kind} {self.value!r} effects={self.effects} if {self.conds}>"


class Explorer:
    def __init__(self, world=None, stats=None, max_paths=20000):
        self.world = world
        self.stats = stats or Stats()
        self.max_paths = max_paths
        self.base = []

    def _solver(self, extra):
        s = z3.Solver()
        s.set("timeout", 20000)
        if self.world is not None:
            s.add(*self.world.axioms())
        s.add(*self.base)
        s.add(*extra)
        return s

    def check(self, constraints):
        s = self._solver(constraints)
        t0 = time.perf_counter()
        r = s.check()
        self.stats.queries += 1
        self.stats.solver_s += time.perf_counter() - t0
        if str(r) == "unknown":
            self.stats.unknown += 1
        return str(r), s

    def feasible(self, constraints):
        r, _ = self.check(constraints)
        return r != "unsat"  # unknown: explore (conservative)

    def run(self, thunk):
        """thunk(ctx) executes one path; returns [PathResult]."""
        results = []
        work = [[]]
        while work:
            prefix = work.pop()
            ctx = PathCtx(self, prefix)
            try:
                try:
                    v = thunk(ctx)
                    res = PathResult(ctx.conds, "return", v, ctx.effects)
                except _Return as r:
                    res = PathResult(ctx.conds, "return", r.value, ctx.effects)
                except _Raise as r:
                    res = PathResult(ctx.conds, "raise", r.exc, ctx.effects)
                except BoundHit:
                    res = PathResult(ctx.conds, "bound", None, ctx.effects, True)
            except _Infeasible:
                work.extend(ctx.alternatives)
                continue
            results.append(res)
            self.stats.paths += 1
            if self.stats.paths > self.max_paths:
                raise Unsupported("path budget exceeded")
            work.extend(ctx.alternatives)
        return results


# ----------------------------------------------------------------------------------
# the evaluator
# ----------------------------------------------------------------------------------

_SRC_CACHE = {}


def _module_tree(mod):
    name = mod.__name__
    if name not in _SRC_CACHE:
        src = inspect.getsource(mod)
        _SRC_CACHE[name] = ast.parse(src)
    return _SRC_CACHE[name]


def function_ast(fn):
    """AST node (FunctionDef or Lambda) of a Python function, from the current source."""
    fn = inspect.unwrap(getattr(fn, "__func__", fn))
    code = fn.__code__
    mod = sys.modules.get(fn.__module__)
    if mod is None:
        raise Unsupported(f"no module for {fn}")
    tree = _module_tree(mod)
    cands = []
    for node in ast.walk(tree):
        if isinstance(node, (ast.FunctionDef, ast.Lambda)):
            first = node.lineno
            if isinstance(node, ast.FunctionDef) and node.decorator_list:
                first = min(d.lineno for d in node.decorator_list)
            if first == code.co_firstlineno:
                if isinstance(node, ast.FunctionDef) and node.name != code.co_name:
                    continue
                if isinstance(node, ast.Lambda) and code.co_name != "<lambda>":
                    continue
                cands.append(node)
    if not cands:
        raise Unsupported(f"source of {fn.__qualname__} not found")
    if len(cands) > 1:
        # several lambdas on one line: tell them apart by the column of the code object
        try:
            cols = [p[2] for p in code.co_positions() if p[2] is not None]
            col = min(cols) if cols else None
        except Exception:
            col = None
        best = [c for c in cands if col is not None and c.col_offset <= col <= (c.end_col_offset or 10 ** 9)]
        if len(best) >= 1:
            cands = sorted(best, key=lambda c: -c.col_offset)[:1]
        else:
            raise Unsupported(f"ambiguous source for {fn.__qualname__}")
    return cands[0]


class Frame:
    def __init__(self, fn, locals_, cls=None, self_val=None):
        self.fn = fn
        self.locals = locals_
        self.globals = fn.__globals__
        self.cls = cls
        self.self_val = self_val
        self.closure = {}
        if fn.__closure__:
            for name, cell in zip(fn.__code__.co_freevars, fn.__closure__):
                try:
                    self.closure[name] = cell.cell_contents
                except ValueError:
                    pass
        self.exc_stack = []


class Interp:
    """One path's evaluator.  `ctx` decides symbolic branches."""

    def __init__(self, ctx, world=None, summaries=None, resolver_maps=None, global_overrides=None, max_depth=40, repo_prefix="synced_collections"):
        self.ctx = ctx
        self.world = world
        self.summaries = summaries  # callable (fn, node) -> [PathResult] or None
        self.resolver_maps = resolver_maps or {}  # id(real resolver) -> SMap
        self.global_overrides = global_overrides or {}
        self.depth = 0
        self.max_depth = max_depth
        self.repo_prefix = repo_prefix
        self.functions_seen = set()

    # -- truthiness -----------------------------------------------------------------
    def truth(self, v):
        if isinstance(v, SBool):
            return self.ctx.decide(v.z)
        if isinstance(v, SInt):
            return self.ctx.decide(v.z != 0)
        if isinstance(v, SStr):
            return self.ctx.decide(z3.Length(v.z) > 0)
        if isinstance(v, (SNode, SView)):
            raise Unsupported("truth value of a symbolic object")
        if isinstance(v, (Opaque, SItem)):
            raise Unsupported("truth value of an opaque value")
        return bool(v)

    # -- calls ----------------------------------------------------------------------
    def call_python(self, fn, args, kwargs=None, cls=None, self_val=None):
        kwargs = kwargs or {}
        raw = inspect.unwrap(getattr(fn, "__func__", fn))
        node = function_ast(raw)
        self.functions_seen.add(f"{raw.__module__}:{raw.__qualname__}")
        a = node.args
        if a.vararg or a.kwarg or a.kwonlyargs or a.posonlyargs:
            raise Unsupported(f"signature of {raw.__qualname__}")
        names = [x.arg for x in a.args]
        if len(args) > len(names):
            raise Unsupported("too many arguments")
        loc = dict(zip(names, args))
        for k, v in kwargs.items():
            if k not in names or k in loc:
                raise Unsupported("keyword arguments")
            loc[k] = v
        defaults = raw.__defaults__ or ()
        for n, d in zip(names[len(names) - len(defaults):], defaults):
            loc.setdefault(n, d)
        if len(loc) != len(names):
            raise Unsupported(f"missing arguments for {raw.__qualname__}")
        frame = Frame(raw, loc, cls=cls, self_val=self_val if self_val is not None else (args[0] if args else None))
        self.depth += 1
        if self.depth > self.max_depth:
            raise Unsupported("call depth")
        try:
            if isinstance(node, ast.Lambda):
                return self.eval(node.body, frame)
            try:
                self.block(node.body, frame)
            except _Return as r:
                return r.value
            return None
        finally:
            self.depth -= 1

    def is_repo_function(self, f):
        raw = getattr(f, "__func__", f)
        return isinstance(raw, types.FunctionType) and (raw.__module__ or "").startswith(self.repo_prefix)

    @staticmethod
    def is_symbolic(v):
        if isinstance(v, (SBool, SInt, SStr, SNode, SView, SType, Recv, SItem, Opaque, SExc, ResolverProxy, SMap, _RecvMethod, _SuperProxy)):
            return True
        if isinstance(v, (tuple, list)):
            return any(Interp.is_symbolic(x) for x in v)
        return False

    def call(self, f, args, kwargs, frame):
        w = self.world
        # modelled receivers ---------------------------------------------------------
        if isinstance(f, _RecvMethod):
            return self.recv_call(f, args)
        if isinstance(f, _SuperMethod):
            self.ctx.effects.append(("object." + f.name, tuple(args)))
            return None
        if isinstance(f, _BoundSym):
            return f.fn(*args)
        if f is builtins.super:
            if args:
                raise Unsupported("super() with arguments")
            if not isinstance(frame.self_val, Recv):
                raise Unsupported("super() outside a modelled receiver")
            return _SuperProxy(frame.self_val)
        if f is builtins.isinstance:
            o, c = args
            if isinstance(o, SNode):
                return SBool(w.isinst(o.T, c))
            if isinstance(o, SStr):
                return _issub(str, c) if isinstance(c, type) else any(_issub(str, x) for x in c)
            if isinstance(o, SExc):
                return _issub(o.cls, c)
            if self.is_symbolic(o):
                raise Unsupported(f"isinstance of {o!r}")
            return isinstance(o, c)
        if f is builtins.issubclass and len(args) == 2 and isinstance(args[0], SType):
            c = args[1]
            if c == () or c is None:
                return False
            return SBool(w.isinst(args[0].node.T, c))
        if f is builtins.type and len(args) == 1:
            o = args[0]
            if isinstance(o, SNode):
                return SType(o)
            if isinstance(o, Recv):
                return o.cls
            if isinstance(o, SStr):
                return str
            if self.is_symbolic(o):
                raise Unsupported(f"type() of {o!r}")
            return type(o)
        if f is builtins.len and len(args) == 1:
            o = args[0]
            if isinstance(o, SStr):
                return SInt(z3.Length(o.z))
            if isinstance(o, SNode):
                return SInt(o.len)
            if self.is_symbolic(o):
                raise Unsupported("len of symbolic value")
            return len(o)
        if f is builtins.list and len(args) == 1 and isinstance(args[0], (SNode, SView)):
            return self.as_view(args[0])
        if f is builtins.tuple and len(args) == 1 and not self.is_symbolic(args[0]):
            return tuple(args[0])
        if f in (builtins.str, builtins.repr) and len(args) == 1 and self.is_symbolic(args[0]):
            if isinstance(args[0], SStr) and f is builtins.str:
                return args[0]
            return Opaque("str()")
        if isinstance(f, type) and issubclass(f, BaseException):
            return SExc(f, tuple(args))
        # library functions: interpret their current source ----------------------------
        if isinstance(f, types.MethodType) and self.is_repo_function(f):
            recv = f.__self__
            proxy = self.proxy_for(recv)
            return self.call_python(f.__func__, [proxy] + list(args), kwargs)
        if isinstance(f, _ProxyMethod):
            return self.call_python(f.fn, [f.proxy] + list(args), kwargs)
        if self.is_repo_function(f):
            if self.summaries is not None and len(args) == 1 and isinstance(args[0], SNode) and not kwargs:
                s = self.summaries(f, args[0])
                if s is not None:
                    return self.apply_summary(s)
            return self.call_python(f, list(args), kwargs)
        if any(self.is_symbolic(a) for a in args) or any(self.is_symbolic(v) for v in kwargs.values()):
            # an opaque predicate of one symbolic object: per-instance unknown
            if len(args) == 1 and isinstance(args[0], SNode) and not kwargs and callable(f):
                name = getattr(f, "__name__", "fn")
                return SBool(w.unknown(f"call_{name}", z3.BoolSort())(z3.IntVal(args[0].id)))
            raise Unsupported(f"call of {getattr(f, '__name__', f)!r} with symbolic arguments")
        return f(*args, **kwargs)

    def proxy_for(self, recv):
        if id(recv) in self.resolver_maps:
            return ResolverProxy(recv, self.resolver_maps[id(recv)])
        return recv

    def apply_summary(self, summary):
        """summary: list of (cond, kind, value) groups, exhaustive and exclusive."""
        for cond, kind, value in summary[:-1]:
            if self.ctx.decide(cond):
                return self._summary_outcome(kind, value)
        cond, kind, value = summary[-1]
        self.ctx.decide(cond)
        return self._summary_outcome(kind, value)

    def _summary_outcome(self, kind, value):
        if kind == "raise":
            raise _Raise(value)
        if kind == "bound":
            raise BoundHit("summary")
        return value

    def recv_call(self, m, args):
        name = m.name
        if name == "__getitem__":
            (k,) = args
            present = self.ctx.fresh_bool("has_key")
            self.ctx.effects.append(("item.get", (k,)))
            if self.ctx.decide(present):
                return SItem(k)
            raise _Raise(SExc(KeyError, (k,)))
        if name == "__setitem__":
            self.ctx.effects.append(("item.set", tuple(args)))
            return None
        if name == "__delitem__":
            (k,) = args
            present = self.ctx.fresh_bool("has_key")
            self.ctx.effects.append(("item.del", (k,)))
            if self.ctx.decide(present):
                return None
            raise _Raise(SExc(KeyError, (k,)))
        raise Unsupported(f"receiver method {name}")

    # -- attribute access -----------------------------------------------------------------
    def getattr(self, v, attr, frame):
        w = self.world
        if isinstance(v, Recv):
            if attr in ("__getitem__", "__setitem__", "__delitem__"):
                return _RecvMethod(v, attr)
            if attr == "__class__":
                return v.cls
            raw = inspect.getattr_static(v.cls, attr, None)
            if raw is None:
                raise Unsupported(f"receiver attribute {attr}")
            if isinstance(raw, (types.FunctionType, property, classmethod, staticmethod)):
                raise Unsupported(f"receiver method {attr}")
            return getattr(v.cls, attr)
        if isinstance(v, _SuperProxy):
            if attr in ("__setattr__", "__delattr__", "__getattribute__", "__getattr__"):
                return _SuperMethod(v.recv, attr)
            raise Unsupported(f"super().{attr}")
        if isinstance(v, SStr):
            return _BoundSym(self.str_method(v, attr))
        if isinstance(v, SNode):
            if attr in ("items", "keys", "values"):
                return _BoundSym(lambda kind=attr: SView(v, kind))
            if attr == "ndim":
                return SInt(w.unknown("attr_ndim", z3.IntSort())(z3.IntVal(v.id)))
            if attr == "item":
                return _BoundSym(lambda: Opaque("item()"))
            if attr in ("startswith", "endswith", "strip", "lstrip", "rstrip"):
                # a string method on a key: meaningful once the path knows the object is a str
                if not self.ctx.decide(w.isinst(v.T, str)):
                    raise _Raise(SExc(AttributeError, (attr,)))
                return _BoundSym(self.str_method(SStr(v.S), attr))
            raise Unsupported(f"attribute {attr} of a symbolic object")
        if isinstance(v, SType):
            if attr in ("__name__", "__qualname__"):
                return Opaque("type name")
            raise Unsupported(f"attribute {attr} of a symbolic type")
        if isinstance(v, ResolverProxy):
            if attr == "type_map":
                return v.smap
            raw = inspect.getattr_static(type(v.real), attr, None)
            if isinstance(raw, types.FunctionType):
                return _ProxyMethod(v, raw)
            return getattr(v.real, attr)
        if isinstance(v, SExc):
            if attr == "args":
                return v.args
            raise Unsupported(f"exception attribute {attr}")
        if self.is_symbolic(v):
            raise Unsupported(f"attribute {attr} of {v!r}")
        if isinstance(v, types.ModuleType) and (v.__name__, attr) in self.global_overrides:
            return self.global_overrides[(v.__name__, attr)]
        return getattr(v, attr)

    def str_method(self, s, attr):
        def conc(x):
            if isinstance(x, SStr):
                return x.z
            if isinstance(x, str):
                return z3.StringVal(x)
            raise Unsupported(f"str.{attr} argument {x!r}")

        if attr == "startswith":
            def f(p, *rest):
                if rest:
                    raise Unsupported("startswith with offsets")
                if isinstance(p, tuple):
                    return SBool(z3.Or(*[z3.PrefixOf(conc(x), s.z) for x in p]))
                return SBool(z3.PrefixOf(conc(p), s.z))
            return f
        if attr == "endswith":
            def f(p, *rest):
                if rest:
                    raise Unsupported("endswith with offsets")
                if isinstance(p, tuple):
                    return SBool(z3.Or(*[z3.SuffixOf(conc(x), s.z) for x in p]))
                return SBool(z3.SuffixOf(conc(p), s.z))
            return f
        if attr == "count":
            raise Unsupported("str.count")
        if attr in ("strip", "lstrip", "rstrip"):
            def f(chars=None):
                if not isinstance(chars, str) or len(chars) != 1:
                    raise Unsupported(f"str.{attr} without a single concrete character")
                # result: symbolic string r with s == pre + r + post, pre/post in chars*, r not starting/ending with chars
                r = z3.String(f"strip!{self.ctx.fresh_bool('x')}")
                pre = z3.String(f"pre!{self.ctx.fresh_bool('x')}")
                post = z3.String(f"post!{self.ctx.fresh_bool('x')}")
                star = z3.Star(z3.Re(chars))
                cons = [s.z == z3.Concat(pre, r, post), z3.InRe(pre, star), z3.InRe(post, star)]
                if attr == "lstrip":
                    cons += [post == z3.StringVal(""), z3.Not(z3.PrefixOf(z3.StringVal(chars), r))]
                elif attr == "rstrip":
                    cons += [pre == z3.StringVal(""), z3.Not(z3.SuffixOf(z3.StringVal(chars), r))]
                else:
                    cons += [z3.Not(z3.PrefixOf(z3.StringVal(chars), r)), z3.Not(z3.SuffixOf(z3.StringVal(chars), r))]
                for c in cons:
                    self.ctx.conds.append(c)
                return SStr(r)
            return f
        if attr == "lower" or attr == "upper" or attr == "casefold":
            raise Unsupported(f"str.{attr}")
        if attr in ("isidentifier", "isalpha", "isdigit", "isalnum", "isupper", "islower", "isspace"):
            raise Unsupported(f"str.{attr}")
        raise Unsupported(f"str.{attr}")

    # -- views / iteration -------------------------------------------------------------
    def as_view(self, v):
        if isinstance(v, SView):
            return v
        # iteration over an object: keys if it is a Mapping, elements otherwise
        import collections.abc as cabc

        if self.ctx.decide(self.world.isinst(v.T, cabc.Mapping)):
            return SView(v, "keys")
        return SView(v, "elements")

    def iterate(self, v):
        """Yield the elements of a (possibly symbolic) iterable on this path."""
        if isinstance(v, SNode):
            v = self.as_view(v)
        if isinstance(v, SView):
            n = v.node
            i = 0
            while True:
                if not self.ctx.decide(n.len > i):
                    return
                if v.kind == "items":
                    yield (n.key(i), n.child(i))
                elif v.kind == "keys":
                    yield n.key(i)
                else:
                    yield n.child(i)
                i += 1
        elif self.is_symbolic(v) and not isinstance(v, (tuple, list)):
            raise Unsupported(f"iteration over {v!r}")
        else:
            yield from v

    # -- statements --------------------------------------------------------------------
    def block(self, stmts, frame):
        for s in stmts:
            self.stmt(s, frame)

    def stmt(self, s, frame):
        if isinstance(s, ast.Expr):
            self.eval(s.value, frame)
        elif isinstance(s, ast.Pass):
            pass
        elif isinstance(s, ast.Return):
            raise _Return(self.eval(s.value, frame) if s.value is not None else None)
        elif isinstance(s, ast.Assign):
            v = self.eval(s.value, frame)
            for t in s.targets:
                self.assign(t, v, frame)
        elif isinstance(s, ast.AnnAssign):
            if s.value is not None:
                self.assign(s.target, self.eval(s.value, frame), frame)
        elif isinstance(s, ast.If):
            if self.truth(self.eval(s.test, frame)):
                self.block(s.body, frame)
            else:
                self.block(s.orelse, frame)
        elif isinstance(s, ast.For):
            broke = False
            for item in self.iterate(self.eval(s.iter, frame)):
                self.assign(s.target, item, frame)
                try:
                    self.block(s.body, frame)
                except _Break:
                    broke = True
                    break
                except _Continue:
                    continue
            if not broke:
                self.block(s.orelse, frame)
        elif isinstance(s, ast.Break):
            raise _Break()
        elif isinstance(s, ast.Continue):
            raise _Continue()
        elif isinstance(s, ast.Raise):
            if s.exc is None:
                if frame.exc_stack:
                    raise _Raise(frame.exc_stack[-1])
                raise Unsupported("bare raise outside handler")
            e = self.eval(s.exc, frame)
            if isinstance(e, type) and issubclass(e, BaseException):
                e = SExc(e)
            if not isinstance(e, SExc):
                raise Unsupported(f"raise of {e!r}")
            if s.cause is not None:
                e.cause = self.eval(s.cause, frame)
            raise _Raise(e)
        elif isinstance(s, ast.Try):
            self.try_stmt(s, frame)
        elif isinstance(s, ast.Assert):
            if not self.truth(self.eval(s.test, frame)):
                raise _Raise(SExc(AssertionError))
        elif isinstance(s, (ast.Import, ast.ImportFrom)):
            raise Unsupported("import inside a kernel")
        else:
            raise Unsupported(f"statement {type(s).__name__}")

    def try_stmt(self, s, frame):
        try:
            try:
                self.block(s.body, frame)
            except _Raise as r:
                exc = r.exc
                for h in s.handlers:
                    if h.type is None:
                        match = True
                    else:
                        t = self.eval(h.type, frame)
                        match = _issub(exc.cls, t) if not isinstance(t, tuple) else any(_issub(exc.cls, x) for x in t)
                    if match:
                        if h.name:
                            frame.locals[h.name] = exc
                        frame.exc_stack.append(exc)
                        try:
                            self.block(h.body, frame)
                        finally:
                            frame.exc_stack.pop()
                        break
                else:
                    raise
            else:
                self.block(s.orelse, frame)
        finally:
            if s.finalbody:
                self.block(s.finalbody, frame)

    def assign(self, target, v, frame):
        if isinstance(target, ast.Name):
            frame.locals[target.id] = v
        elif isinstance(target, (ast.Tuple, ast.List)):
            if isinstance(v, (SNode, SView)) or (self.is_symbolic(v) and not isinstance(v, (tuple, list))):
                raise Unsupported("unpacking a symbolic value")
            vals = list(v)
            if len(vals) != len(target.elts):
                raise Unsupported("unpack arity")
            for t, x in zip(target.elts, vals):
                self.assign(t, x, frame)
        elif isinstance(target, ast.Subscript):
            obj = self.eval(target.value, frame)
            key = self.eval(target.slice, frame)
            if isinstance(obj, SMap):
                obj.stores.append((key, v))
                self.ctx.effects.append(("memo.store", (key, v)))
                return
            if self.is_symbolic(obj) or self.is_symbolic(key):
                raise Unsupported("subscript store on symbolic value")
            raise Unsupported("subscript store on a concrete object (side effect)")
        elif isinstance(target, ast.Attribute):
            obj = self.eval(target.value, frame)
            if isinstance(obj, Recv):
                self.ctx.effects.append(("setattr-syntax", (target.attr, v)))
                return
            raise Unsupported("attribute store")
        else:
            raise Unsupported(f"assignment target {type(target).__name__}")

    # -- expressions -------------------------------------------------------------------
    def eval(self, e, frame):
        w = self.world
        if isinstance(e, ast.Constant):
            return e.value
        if isinstance(e, ast.Name):
            n = e.id
            if n in frame.locals:
                return frame.locals[n]
            if n in frame.closure:
                return frame.closure[n]
            mod = frame.fn.__module__
            if (mod, n) in self.global_overrides:
                return self.global_overrides[(mod, n)]
            if n in frame.globals:
                return frame.globals[n]
            if hasattr(builtins, n):
                return getattr(builtins, n)
            raise _Raise(SExc(NameError, (n,)))
        if isinstance(e, ast.Attribute):
            return self.getattr(self.eval(e.value, frame), e.attr, frame)
        if isinstance(e, ast.Call):
            f = self.eval(e.func, frame)
            args = []
            for a in e.args:
                if isinstance(a, ast.Starred):
                    raise Unsupported("star args")
                args.append(self.eval(a, frame))
            kwargs = {}
            for k in e.keywords:
                if k.arg is None:
                    raise Unsupported("** args")
                kwargs[k.arg] = self.eval(k.value, frame)
            return self.call(f, args, kwargs, frame)
        if isinstance(e, ast.BoolOp):
            v = None
            for sub in e.values:
                v = self.eval(sub, frame)
                t = self.truth(v)
                if isinstance(e.op, ast.And) and not t:
                    return v if not isinstance(v, (SBool, SInt, SStr)) else False
                if isinstance(e.op, ast.Or) and t:
                    return v if not isinstance(v, (SBool,)) else True
            if isinstance(v, SBool):
                # the last operand's truth was decided on this path
                return isinstance(e.op, ast.And)
            return v
        if isinstance(e, ast.UnaryOp):
            if isinstance(e.op, ast.Not):
                return not self.truth(self.eval(e.operand, frame))
            v = self.eval(e.operand, frame)
            if isinstance(e.op, ast.USub):
                return SInt(-v.z) if isinstance(v, SInt) else -v
            raise Unsupported("unary operator")
        if isinstance(e, ast.Compare):
            left = self.eval(e.left, frame)
            for op, right_e in zip(e.ops, e.comparators):
                right = self.eval(right_e, frame)
                r = self.compare(op, left, right)
                if not self.truth(r):
                    return False
                left = right
            return True
        if isinstance(e, ast.IfExp):
            return self.eval(e.body if self.truth(self.eval(e.test, frame)) else e.orelse, frame)
        if isinstance(e, ast.JoinedStr):
            for v in e.values:
                if isinstance(v, ast.FormattedValue):
                    pass  # formatting is not evaluated (messages are not part of any property)
            return Opaque("f-string")
        if isinstance(e, ast.Tuple):
            return tuple(self.eval(x, frame) for x in e.elts)
        if isinstance(e, ast.List):
            return [self.eval(x, frame) for x in e.elts]
        if isinstance(e, ast.Set):
            vals = [self.eval(x, frame) for x in e.elts]
            if any(self.is_symbolic(x) for x in vals):
                raise Unsupported("set display with symbolic elements")
            return set(vals)
        if isinstance(e, ast.Dict):
            ks = [self.eval(k, frame) for k in e.keys]
            vs = [self.eval(v, frame) for v in e.values]
            if any(self.is_symbolic(k) for k in ks):
                raise Unsupported("dict display with symbolic keys")
            return dict(zip(ks, vs))
        if isinstance(e, ast.Subscript):
            obj = self.eval(e.value, frame)
            if isinstance(e.slice, ast.Slice):
                return self.slice(obj, e.slice, frame)
            key = self.eval(e.slice, frame)
            return self.subscript(obj, key)
        if isinstance(e, ast.BinOp):
            a = self.eval(e.left, frame)
            b = self.eval(e.right, frame)
            return self.binop(e.op, a, b)
        if isinstance(e, ast.Lambda):
            raise Unsupported("lambda expression inside a kernel")
        raise Unsupported(f"expression {type(e).__name__}")

    def binop(self, op, a, b):
        if not (self.is_symbolic(a) or self.is_symbolic(b)):
            import operator

            table = {ast.Add: operator.add, ast.Sub: operator.sub, ast.Mult: operator.mul, ast.BitOr: operator.or_, ast.BitAnd: operator.and_, ast.Mod: operator.mod}
            if type(op) in table:
                return table[type(op)](a, b)
            raise Unsupported("binary operator")
        if isinstance(op, ast.Add):
            if isinstance(a, (SStr, str)) and isinstance(b, (SStr, str)):
                za = a.z if isinstance(a, SStr) else z3.StringVal(a)
                zb = b.z if isinstance(b, SStr) else z3.StringVal(b)
                return SStr(z3.Concat(za, zb))
            if isinstance(a, (SInt, int)) and isinstance(b, (SInt, int)):
                return SInt((a.z if isinstance(a, SInt) else a) + (b.z if isinstance(b, SInt) else b))
        if isinstance(op, ast.Sub) and isinstance(a, (SInt, int)) and isinstance(b, (SInt, int)):
            return SInt((a.z if isinstance(a, SInt) else a) - (b.z if isinstance(b, SInt) else b))
        if isinstance(op, ast.Mod) and isinstance(a, str):
            return Opaque("%-format")
        raise Unsupported("binary operator on symbolic values")

    def slice(self, obj, sl, frame):
        if not isinstance(obj, SStr):
            if self.is_symbolic(obj):
                raise Unsupported("slice of symbolic value")
            lo = self.eval(sl.lower, frame) if sl.lower else None
            hi = self.eval(sl.upper, frame) if sl.upper else None
            st = self.eval(sl.step, frame) if sl.step else None
            return obj[lo:hi:st]
        if sl.step is not None:
            raise Unsupported("string slice with step")
        lo = self.eval(sl.lower, frame) if sl.lower else 0
        hi = self.eval(sl.upper, frame) if sl.upper else None
        if not isinstance(lo, int) or not (hi is None or isinstance(hi, int)):
            raise Unsupported("symbolic slice bounds")
        n = z3.Length(obj.z)

        def pos(i):
            # Python clamps slice indices
            if i >= 0:
                return z3.If(n < i, n, z3.IntVal(i))
            return z3.If(n + i < 0, z3.IntVal(0), n + i)

        a = pos(lo)
        b = n if hi is None else pos(hi)
        return SStr(z3.If(b > a, z3.SubString(obj.z, a, b - a), z3.StringVal("")))

    def subscript(self, obj, key):
        if isinstance(obj, SMap):
            return self.smap_get(obj, key)
        if isinstance(obj, SStr):
            if not isinstance(key, int):
                raise Unsupported("symbolic string index")
            n = z3.Length(obj.z)
            ok = (n > key) if key >= 0 else (n >= -key)
            if not self.ctx.decide(ok):
                raise _Raise(SExc(IndexError))
            idx = z3.IntVal(key) if key >= 0 else n + key
            return SStr(z3.SubString(obj.z, idx, 1))
        if isinstance(obj, SNode):
            if isinstance(key, SNode) and getattr(key, "key_of", (None,))[0] is obj:
                return obj.child(key.key_of[1])
            raise Unsupported("subscript of a symbolic object")
        if isinstance(obj, SView):
            raise Unsupported("subscript of a view")
        if self.is_symbolic(obj) or self.is_symbolic(key):
            raise Unsupported("subscript with symbolic operands")
        try:
            return obj[key]
        except (KeyError, IndexError, TypeError) as ex:
            raise _Raise(SExc(type(ex), ex.args))

    def smap_get(self, m, key):
        if not isinstance(key, SType):
            raise Unsupported("memo lookup with a non-symbolic key")
        T = key.node.T
        if m.cold or not self.ctx.decide(m.present(T)):
            raise _Raise(SExc(KeyError, (key,)))
        # fork over the stored category
        for i, c in enumerate(m.cats[:-1]):
            if self.ctx.decide(m.val(T) == i):
                return c
        self.ctx.decide(m.val(T) == len(m.cats) - 1)
        return m.cats[-1]

    def compare(self, op, a, b):
        w = self.world
        if isinstance(op, (ast.In, ast.NotIn)):
            r = self.contains(b, a)
            if isinstance(op, ast.NotIn):
                return SBool(z3.Not(r.z)) if isinstance(r, SBool) else (not r)
            return r
        if isinstance(op, (ast.Is, ast.IsNot)):
            if self.is_symbolic(a) or self.is_symbolic(b):
                if a is None or b is None:
                    # a symbolic object/str is never None here
                    r = False
                elif a is b:
                    r = True
                else:
                    raise Unsupported("identity of symbolic values")
            else:
                r = a is b
            return (not r) if isinstance(op, ast.IsNot) else r
        if isinstance(op, (ast.Eq, ast.NotEq)):
            r = self.equals(a, b)
            if isinstance(op, ast.NotEq):
                return SBool(z3.Not(r.z)) if isinstance(r, SBool) else (not r)
            return r
        if isinstance(a, (SInt, int)) and isinstance(b, (SInt, int)) and not isinstance(a, bool) and not isinstance(b, bool):
            za = a.z if isinstance(a, SInt) else z3.IntVal(a)
            zb = b.z if isinstance(b, SInt) else z3.IntVal(b)
            table = {ast.Lt: za < zb, ast.LtE: za <= zb, ast.Gt: za > zb, ast.GtE: za >= zb}
            if type(op) in table:
                if not (isinstance(a, SInt) or isinstance(b, SInt)):
                    return bool({ast.Lt: a < b, ast.LtE: a <= b, ast.Gt: a > b, ast.GtE: a >= b}[type(op)])
                return SBool(table[type(op)])
        if not (self.is_symbolic(a) or self.is_symbolic(b)):
            import operator

            return {ast.Lt: operator.lt, ast.LtE: operator.le, ast.Gt: operator.gt, ast.GtE: operator.ge}[type(op)](a, b)
        raise Unsupported(f"comparison {type(op).__name__} on symbolic values")

    def equals(self, a, b):
        if isinstance(a, SStr) or isinstance(b, SStr):
            if isinstance(a, SStr) and isinstance(b, SStr):
                return SBool(a.z == b.z)
            s, o = (a, b) if isinstance(a, SStr) else (b, a)
            if isinstance(o, str):
                return SBool(s.z == z3.StringVal(o))
            if self.is_symbolic(o):
                raise Unsupported("str == symbolic non-str")
            return False
        if isinstance(a, SInt) or isinstance(b, SInt):
            za = a.z if isinstance(a, SInt) else a
            zb = b.z if isinstance(b, SInt) else b
            if isinstance(za, (int, z3.ExprRef)) and isinstance(zb, (int, z3.ExprRef)):
                return SBool(za == zb)
            return False
        if isinstance(a, SType) or isinstance(b, SType):
            if isinstance(a, SType) and isinstance(b, SType):
                return SBool(a.node.T == b.node.T)
            t, o = (a, b) if isinstance(a, SType) else (b, a)
            if isinstance(o, type):
                return SBool(t.node.T == self.world.const_of(o))
            return False
        if self.is_symbolic(a) or self.is_symbolic(b):
            if a is b:
                return True
            raise Unsupported(f"== on {a!r}, {b!r}")
        return a == b

    def contains(self, container, item):
        if isinstance(container, SStr):
            if isinstance(item, str):
                return SBool(z3.Contains(container.z, z3.StringVal(item)))
            if isinstance(item, SStr):
                return SBool(z3.Contains(container.z, item.z))
            raise Unsupported("in <symbolic str>")
        if isinstance(item, SStr):
            if isinstance(container, str):
                return SBool(z3.Contains(z3.StringVal(container), item.z))
            if isinstance(container, (set, frozenset, tuple, list, dict)):
                strs = [x for x in container if isinstance(x, str)]
                if not strs:
                    return False
                return SBool(z3.Or(*[item.z == z3.StringVal(x) for x in strs]))
            raise Unsupported("symbolic str in <container>")
        if isinstance(item, SType):
            if isinstance(container, (tuple, list, set, frozenset)):
                cs = [c for c in container if isinstance(c, type)]
                if not cs:
                    return False
                return SBool(z3.Or(*[item.node.T == self.world.const_of(c) for c in cs]))
            if isinstance(container, SMap):
                return SBool(container.present(item.node.T)) if not container.cold else False
            raise Unsupported("symbolic type in <container>")
        if isinstance(item, SNode) and isinstance(item.S, z3.ExprRef) and isinstance(container, (set, frozenset, tuple, list)):
            raise Unsupported("symbolic object in <container>")
        if self.is_symbolic(container) or self.is_symbolic(item):
            raise Unsupported("membership on symbolic values")
        return item in container


class _BoundSym:
    def __init__(self, fn):
        self.fn = fn


class _ProxyMethod:
    def __init__(self, proxy, fn):
        self.proxy = proxy
        self.fn = fn


# node-content membership: "." in key where key is a symbolic object known to be a str
_orig_contains = Interp.contains


def _contains(self, container, item):
    if isinstance(container, SNode):
        if isinstance(item, str):
            # only meaningful for str instances; the caller has established isinstance(key, str)
            if not self.ctx.decide(self.world.isinst(container.T, str)):
                raise Unsupported("substring test on a symbolic non-str object")
            return SBool(z3.Contains(container.S, z3.StringVal(item)))
        raise Unsupported("in <symbolic object>")
    return _orig_contains(self, container, item)


Interp.contains = _contains
