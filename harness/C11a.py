"""C11 (Engine A part) Forbidden data never gets in, through any entry point.

For every class x entry point x target position {root, nested dict, nested list} x
invalid item kind x position of the item inside the argument (depth <= 3): the call must
raise a TypeError/ValueError subclass, neither memory nor backend may contain a
forbidden item afterwards, and a rejected single-element operation changes nothing."""
from vf import hlib, ops
from vf.hlib import FAMILIES, MISSING, case, fail, finish, get_env, pick, plain, same_tree, copy_tree, known

PID = "C11"
WHICH = ["dict", "list"]
PARTS = [(f, w) for f in FAMILIES for w in WHICH]


class NotJSON:
    def __repr__(self):
        return "<NotJSON>"


KINDS = ["int-key", "none-key", "tuple-key", "object", "set", "complex", "dot-key", "nested-dot-key"]


def make_item(kind):
    return {
        "int-key": {1: 0}, "none-key": {None: 0}, "tuple-key": {(1, 2): 0}, "object": NotJSON(), "set": {1, 2}, "complex": 1j,
        "dot-key": {"a.b": 0}, "nested-dot-key": {"ok": {"x.y": 0}},
    }[kind]


WRAPS = [
    ("item", lambda v: v), ("{k:item}", lambda v: {"k": v}), ("[item]", lambda v: [v]), ("[0,item]", lambda v: [0, v]),
    ("{k:[item]}", lambda v: {"k": [v]}), ("[{k:item}]", lambda v: [{"k": v}]), ("[[item]]", lambda v: [[v]]), ("(item,)", lambda v: (v,)),
    ("{k:{k:item}}", lambda v: {"k": {"k": v}}), ("{k:[{k:item}]}", lambda v: {"k": [{"k": v}]}),
]

DICT_ENTRIES = ["ctor", "setitem_new", "setitem_replace", "setitem_replace_container", "setdefault_new", "update_map", "update_map_replace", "update_pairs", "update_kwargs", "update_kwargs_replace_container", "reset", "reset_replace_scalar"]
LIST_ENTRIES = ["ctor", "setitem", "setitem_container", "setslice", "append", "extend", "insert", "iadd", "reset_scalar_position", "reset_container_position", "reset_beyond_end"]
SINGLE = {"setitem_new", "setitem_replace", "setitem_replace_container", "setdefault_new", "setitem", "setitem_container", "append", "insert"}
POSITIONS = ["root", "nested-dict", "nested-list"]


def forbidden_in(tree, attr):
    """First forbidden item found in a tree (walks synced nodes through _data)."""
    SC = hlib._sc()
    stack = [tree]
    while stack:
        v = stack.pop()
        if isinstance(v, SC):
            v = v._data
        if isinstance(v, dict):
            for k, x in v.items():
                if not isinstance(k, str):
                    return f"non-string key {k!r}"
                if attr and "." in k:
                    return f"dotted key {k!r}"
                stack.append(x)
        elif isinstance(v, (list, tuple)):
            stack.extend(v)
        elif not (v is None or isinstance(v, (bool, int, float, str))):
            return f"non-JSON value {v!r}"
    return None


def apply_entry(fam, env, which, tkind, target, entry, arg):
    if tkind == "dict":
        t = target
        if entry == "setitem_new":
            t["q"] = arg
        elif entry == "setitem_replace":
            t["p"] = arg
        elif entry == "setitem_replace_container":
            t["c"] = arg
        elif entry == "setdefault_new":
            t.setdefault("q", arg)
        elif entry == "update_map":
            t.update({"q": arg})
        elif entry == "update_map_replace":
            t.update({"p": arg})
        elif entry == "update_pairs":
            t.update([("q", arg)])
        elif entry == "update_kwargs":
            t.update(q=arg)
        elif entry == "update_kwargs_replace_container":
            t.update(c=arg)
        elif entry == "reset":
            t.reset({"q": arg})
        elif entry == "reset_replace_scalar":
            t.reset({"p": arg, "c": {"z": 0}})
    else:
        t = target
        if entry == "setitem":
            t[0] = arg
        elif entry == "setitem_container":
            t[1] = arg
        elif entry == "setslice":
            t[0:1] = [arg]
        elif entry == "append":
            t.append(arg)
        elif entry == "extend":
            t.extend([0, arg])
        elif entry == "insert":
            t.insert(0, arg)
        elif entry == "iadd":
            t += [arg]
        elif entry == "reset_scalar_position":
            t.reset([arg, {"z": 0}])
        elif entry == "reset_container_position":
            t.reset([0, arg])
        elif entry == "reset_beyond_end":
            t.reset([0, {"z": 0}, arg])


def reject(pi: int, ei: int, ki: int, wi: int) -> bool:
    """
    post: _
    """
    env = get_env().reset()
    fam, which = PARTS[hlib.PART % len(PARTS)]
    pos = pick(POSITIONS, pi)
    kind = pick(KINDS, ki)
    wrap = pick(WRAPS, wi)
    if pos is None or kind is None or wrap is None:
        return finish(False, True)
    tkind = which if pos == "root" else ("dict" if pos == "nested-dict" else "list")
    entry = pick(DICT_ENTRIES if tkind == "dict" else LIST_ENTRIES, ei)
    if entry is None or (entry == "ctor" and pos != "root"):
        return finish(False, True)
    if kind in ("dot-key", "nested-dot-key") and not fam.attr:
        return finish(False, True)  # dots are only forbidden for the attribute-access families
    if kind in ("object", "set", "complex") and fam.kind == "zarr":
        # Zarr collections take a pluggable object codec (e.g. pickle) and deliberately carry
        # no JSON-format validator: non-JSON values are not forbidden by this collection type
        return finish(False, True)
    # every selector is concrete from here on: the real code runs natively for this cell
    return ops.native(_cell, env, fam, which, pos, tkind, entry, kind, wrap, (pi, ei, ki, wi))


def _cell(env, fam, which, pos, tkind, entry, kind, wrap, args):
    cls = fam.cls(which)
    arg = wrap[1](make_item(kind))
    T_dict = {"p": 0, "c": {"z": 0}}
    T_list = [0, {"z": 0}]
    if which == "dict":
        doc = {"p": 0, "c": {"z": 0}, "nd": copy_tree(T_dict), "nl": copy_tree(T_list)}
    else:
        doc = [0, {"z": 0}, copy_tree(T_dict), copy_tree(T_list)]
    raised = None
    if entry == "ctor":
        try:
            obj = fam.make(env, which, "r", data=({"q": arg} if which == "dict" else [arg]))
        except hlib.Crash:
            raise
        except Exception as e:
            raised = e
            obj = None
        case(cls.__name__, pos, entry, kind, wrap[0])
        if raised is None:
            return finish(True, fail(lambda: f"{cls.__name__}(data=...) accepted {kind} at {wrap[0]}: {arg!r}"))
        if not isinstance(raised, (TypeError, ValueError)):
            return finish(True, fail(lambda: f"{cls.__name__}(data=...) with {kind} at {wrap[0]} raised {raised!r}, not a TypeError/ValueError"))
        return finish(True, fam.read(env, "r") is MISSING or fail(lambda: "a rejected constructor wrote to the backend"))
    fam.write(env, "r", doc)
    obj = fam.make(env, which, "r")
    obj()  # loaded
    if pos == "root":
        target = obj
    elif pos == "nested-dict":
        target = obj["nd" if which == "dict" else 2]
    else:
        target = obj["nl" if which == "dict" else 3]
    before = plain(obj._to_base())
    try:
        apply_entry(fam, env, which, tkind, target, entry, arg)
    except hlib.Crash:
        raise
    except Exception as e:
        raised = e
    case(cls.__name__, pos, entry, kind, wrap[0])
    fp = {"class": cls.__name__, "position": pos, "kind": kind, "under_list": "[" in wrap[0] or "(" in wrap[0] or tkind == "list", "entry": entry}
    mem_bad = forbidden_in(obj, fam.attr)
    res = fam.read(env, "r")
    res_bad = forbidden_in(res, fam.attr) if res is not MISSING else None
    if raised is None or mem_bad or res_bad:
        if known(PID, fp, args):
            return finish(True, True)
        if raised is None:
            return finish(True, fail(lambda: f"{cls.__name__} {pos}.{entry} accepted {kind} at {wrap[0]}: {arg!r} (memory: {mem_bad}, backend: {res_bad})"))
        return finish(True, fail(lambda: f"{cls.__name__} {pos}.{entry} rejected {kind} at {wrap[0]} with {raised!r} but forbidden data stayed: memory {mem_bad}, backend {res_bad}"))
    if not isinstance(raised, (TypeError, ValueError)):
        return finish(True, fail(lambda: f"{cls.__name__} {pos}.{entry} with {kind} at {wrap[0]} raised {raised!r}, not a TypeError/ValueError"))
    if entry in SINGLE:
        after = plain(obj._to_base())
        if not same_tree(after, before) or not same_tree(res, before):
            return finish(True, fail(lambda: f"{cls.__name__} {pos}.{entry}: rejected single-element operation changed content: memory {after!r}, backend {res!r}, before {before!r}"))
    return finish(True, True)


KEY_KINDS = ["int-key", "none-key", "tuple-key", "float-key", "bool-key", "dot-key"]
KEY_ENTRIES = ["setitem", "setdefault", "setdefault_nodefault", "update_map", "update_map_mixed", "update_pairs", "update_pairs_tuple", "update_pairs_iter", "update_pairs_mixed", "reset", "ctor"]
KEY_POS = ["root", "nested-dict", "dict-in-list"]


def bad_key(kind):
    return {"int-key": 1, "none-key": None, "tuple-key": (1, 2), "float-key": 1.5, "bool-key": True, "dot-key": "a.b"}[kind]


def badkey(pi: int, ei: int, ki: int) -> bool:
    """The forbidden item is the KEY the entry point is called with (not a key somewhere
    inside a value).
    post: _
    """
    env = get_env().reset()
    fam, which = PARTS[hlib.PART % len(PARTS)]
    pos = pick(KEY_POS, pi)
    entry = pick(KEY_ENTRIES, ei)
    kind = pick(KEY_KINDS, ki)
    if pos is None or entry is None or kind is None:
        return finish(False, True)
    if kind == "dot-key" and not fam.attr:
        return finish(False, True)
    if (pos == "dict-in-list") != (which == "list"):
        return finish(False, True)
    if entry == "ctor" and pos != "root":
        return finish(False, True)
    return ops.native(_badkey_cell, env, fam, which, pos, entry, kind)


def _badkey_cell(env, fam, which, pos, entry, kind):
    cls = fam.cls(which)
    k = bad_key(kind)
    raised = None
    if entry == "ctor":
        try:
            fam.make(env, "dict", "r", data={k: 0, "ok": 1})
        except hlib.Crash:
            raise
        except Exception as e:
            raised = e
        case(cls.__name__, pos, entry, kind)
        if raised is None or not isinstance(raised, (TypeError, ValueError)):
            return finish(True, fail(lambda: f"{fam.D.__name__}(data={{{k!r}: 0, 'ok': 1}}) -> {raised!r}"))
        return finish(True, fam.read(env, "r") is MISSING or fail(lambda: "a rejected constructor wrote to the backend"))
    doc = {"p": 0, "nd": {"p": 0}} if which == "dict" else [{"p": 0}, 0]
    fam.write(env, "r", doc)
    obj = fam.make(env, which, "r")
    obj()
    t = obj if pos == "root" else (obj["nd"] if pos == "nested-dict" else obj[0])
    before = plain(obj._to_base())
    try:
        if entry == "setitem":
            t[k] = 0
        elif entry == "setdefault":
            t.setdefault(k, 0)
        elif entry == "setdefault_nodefault":
            t.setdefault(k)
        elif entry == "update_map":
            t.update({k: 0})
        elif entry == "update_map_mixed":
            t.update({"ok": 1, k: 0})
        elif entry == "update_pairs":
            t.update([(k, 0)])
        elif entry == "update_pairs_tuple":
            t.update(((k, 0),))
        elif entry == "update_pairs_iter":
            t.update(iter([(k, 0)]))
        elif entry == "update_pairs_mixed":
            t.update([("ok", 1), (k, 0)], z=2)
        elif entry == "reset":
            t.reset({k: 0, "ok": 1})
    except hlib.Crash:
        raise
    except Exception as e:
        raised = e
    case(cls.__name__, pos, entry, kind)
    mem_bad = forbidden_in(obj, fam.attr)
    res = fam.read(env, "r")
    res_bad = forbidden_in(res, fam.attr) if res is not MISSING else None
    label = f"{cls.__name__} {pos}.{entry} with the key {k!r}"
    if raised is None:
        return finish(True, fail(lambda: f"{label}: accepted (memory: {mem_bad}, backend now {res!r})"))
    if mem_bad or res_bad:
        return finish(True, fail(lambda: f"{label}: rejected with {raised!r} but forbidden data stayed: memory {mem_bad}, backend {res_bad}"))
    if not isinstance(raised, (TypeError, ValueError)):
        return finish(True, fail(lambda: f"{label}: raised {raised!r}, not a TypeError/ValueError"))
    if entry in ("setitem", "setdefault", "setdefault_nodefault", "update_map", "update_pairs", "update_pairs_tuple", "update_pairs_iter"):
        after = plain(obj._to_base())
        if not same_tree(after, before) or not same_tree(res, before):
            return finish(True, fail(lambda: f"{label}: rejected single-element operation changed content: memory {after!r}, backend {res!r}, before {before!r}"))
    return finish(True, True)


def plan(tier):
    t = 300 if tier == "quick" else 1500
    return [{"fn": "reject", "nparts": len(PARTS), "timeout": t}, {"fn": "badkey", "nparts": len(PARTS), "timeout": t}]


def smoke(tier):
    out = []
    for part in range(len(PARTS)):
        for pi in range(3):
            for ei in range(0, 12, 2):
                out.append(("reject", (pi, ei, (pi + ei + part) % 8, (ei + part) % 10), part, len(PARTS)))
        for ei in range(len(KEY_ENTRIES)):
            for ki in range(len(KEY_KINDS)):
                out.append(("badkey", (0 if part % 2 == 0 else 2, ei, ki), part, len(PARTS)))
                if part % 2 == 0:
                    out.append(("badkey", (1, ei, ki), part, len(PARTS)))
    return out


FUNCTIONS = [
    "synced_collections.validators:no_dot_in_key",
    "synced_collections.validators:require_string_key",
    "synced_collections.validators:json_format_validator",
    "synced_collections.backends.collection_json:json_attr_dict_validator",
    "synced_collections.data_types.synced_collection:SyncedCollection._validate",
    "synced_collections.data_types.synced_collection:SyncedCollection._register_validators",
    "synced_collections.data_types.synced_dict:SyncedDict.__init__",
    "synced_collections.data_types.synced_dict:SyncedDict.__setitem__",
    "synced_collections.data_types.synced_dict:SyncedDict.update",
    "synced_collections.data_types.synced_dict:SyncedDict.setdefault",
    "synced_collections.data_types.synced_dict:SyncedDict._update",
    "synced_collections.data_types.synced_list:SyncedList.__init__",
    "synced_collections.data_types.synced_list:SyncedList.__setitem__",
    "synced_collections.data_types.synced_list:SyncedList.insert",
    "synced_collections.data_types.synced_list:SyncedList.append",
    "synced_collections.data_types.synced_list:SyncedList.extend",
    "synced_collections.data_types.synced_list:SyncedList.__iadd__",
    "synced_collections.data_types.synced_list:SyncedList._update",
]
BOUNDS = {"quick": {"classes": 18, "positions": POSITIONS, "entry_points": {"dict": DICT_ENTRIES, "list": LIST_ENTRIES}, "invalid_kinds": KINDS, "item_position_in_argument": [w[0] for w in WRAPS]}}
BOUNDS["quick"]["key_level"] = {"entries": KEY_ENTRIES, "key_kinds": KEY_KINDS, "positions": KEY_POS}
BOUNDS["thorough"] = BOUNDS["quick"]
ASSUMPTIONS = [
    "Zarr collections take a pluggable object codec and carry no JSON-format validator by design: non-JSON *values* are not counted as forbidden for ZarrDict/ZarrList (non-string keys are)",
    "dotted keys are forbidden only for the attribute-access families",
    "memory is inspected through _to_base()/_data without reloading (a reload would undo pollution)",
]
OUTSIDE = ["invalid items deeper than 3 inside the argument", "bytes (stored as lists of ints, accepted)"]
