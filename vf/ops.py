"""Operation tables: every public mutator / reader of dict-like and list-like
collections, in a form that runs unchanged on a synced object and on the plain
reference (`ref` gives the documented deviation where there is one)."""
from .env_model import copy_tree


class A:
    """Arguments of one operation: v, w values (already built), i/j/k ints."""

    def __init__(self, v=None, w=None, i=0, j=0, k=1):
        self.v = v
        self.w = w
        self.i = i
        self.j = j
        self.k = k


def native(f, *args):
    """Run f natively (outside CrossHair's tracer).  Only for operations whose operands
    are concrete by construction: CrossHair replaces repr()/str() of containers holding
    foreign objects by an unconstrained symbolic string, which says nothing about the
    library."""
    try:
        from crosshair.tracers import NoTracing, is_tracing

        if is_tracing():
            with NoTracing():
                return f(*args)
    except ImportError:
        pass
    return f(*args)


class Op:
    def __init__(self, name, fn, ref=None, v=False, w=False, i=False, j=False, k=False, mut=True, concrete=False):
        self.concrete = concrete  # harness must use concrete leaves for this op
        self.name = name
        self.fn = fn
        self.ref = ref or fn
        self.v = v
        self.w = w
        self.i = i
        self.j = j
        self.k = k
        self.mut = mut


def _reset_dict_ref(t, a):
    t.clear()
    t.update(a.v)


def _reset_list_ref(t, a):
    t[:] = list(a.v)


def _iadd(t, a):
    t += [a.v]
    return None


def _slice(a):
    return slice(a.i, a.j, a.k if a.k != 0 else None)


# keys: "p" exists in the target dict, "q" does not.
DICT_MUTATORS = [
    Op("setitem_replace", lambda t, a: t.__setitem__("p", a.v), v=True),
    Op("setitem_new", lambda t, a: t.__setitem__("q", a.v), v=True),
    Op("delitem", lambda t, a: t.__delitem__("p")),
    Op("delitem_missing", lambda t, a: t.__delitem__("q")),
    Op("pop", lambda t, a: t.pop("p"), ref=lambda t, a: t.pop("p", None)),
    Op("pop_missing", lambda t, a: t.pop("q"), ref=lambda t, a: t.pop("q", None)),
    Op("pop_missing_default", lambda t, a: t.pop("q", a.v), v=True),
    Op("popitem", lambda t, a: t.popitem()),
    Op("clear", lambda t, a: t.clear()),
    Op("update_map", lambda t, a: t.update({"q": a.v}), v=True),
    Op("update_map_replace", lambda t, a: t.update({"p": a.v}), v=True),
    Op("update_pairs", lambda t, a: t.update([("q", a.v)]), v=True),
    Op("update_kwargs", lambda t, a: t.update(q=a.v), v=True),
    Op("update_map_kwargs", lambda t, a: t.update({"p": a.v}, q=a.w), v=True, w=True),
    Op("update_nothing", lambda t, a: t.update()),
    Op("setdefault_existing", lambda t, a: t.setdefault("p", a.v), v=True),
    Op("setdefault_new", lambda t, a: t.setdefault("q", a.v), v=True),
    Op("setdefault_new_nodefault", lambda t, a: t.setdefault("q")),
    Op("reset", lambda t, a: t.reset({"q": a.v}), ref=lambda t, a: _reset_dict_ref(t, A(v={"q": a.v})), v=True),
    Op("reset_empty", lambda t, a: t.reset({}), ref=lambda t, a: t.clear()),
    Op("reset_larger", lambda t, a: t.reset({"q": a.v, "r": a.w}), ref=lambda t, a: _reset_dict_ref(t, A(v={"q": a.v, "r": a.w})), v=True, w=True),
    Op("update_two_new", lambda t, a: t.update({"q": a.v, "r": a.w}), v=True, w=True),
]

LIST_MUTATORS = [
    Op("setitem", lambda t, a: t.__setitem__(a.i, a.v), v=True, i=True),
    Op("setslice", lambda t, a: t.__setitem__(slice(a.i, a.j), [a.v]), v=True, i=True, j=True),
    Op("delitem", lambda t, a: t.__delitem__(a.i), i=True),
    Op("delslice", lambda t, a: t.__delitem__(slice(a.i, a.j)), i=True, j=True),
    Op("append", lambda t, a: t.append(a.v), v=True),
    Op("extend", lambda t, a: t.extend([a.v, a.w]), v=True, w=True),
    Op("extend_empty", lambda t, a: t.extend([])),
    Op("extend_tuple", lambda t, a: t.extend((a.v,)), v=True),
    Op("insert", lambda t, a: t.insert(a.i, a.v), v=True, i=True),
    Op("remove", lambda t, a: t.remove(a.v), v=True),
    Op("reverse", lambda t, a: t.reverse()),
    Op("iadd", _iadd, v=True),
    Op("pop", lambda t, a: t.pop()),
    Op("pop_index", lambda t, a: t.pop(a.i), i=True),
    Op("clear", lambda t, a: t.clear()),
    Op("reset", lambda t, a: t.reset([a.v]), ref=lambda t, a: _reset_list_ref(t, A(v=[a.v])), v=True),
    Op("reset_empty", lambda t, a: t.reset([]), ref=lambda t, a: t.clear()),
    Op("reset_longer", lambda t, a: t.reset([a.v, a.w, a.v]), ref=lambda t, a: _reset_list_ref(t, A(v=[a.v, a.w, a.v])), v=True, w=True),
]

# extended slice forms (C03 thorough)
LIST_SLICE_OPS = [
    Op("setslice_step", lambda t, a: t.__setitem__(_slice(a), [a.v, a.w]), v=True, w=True, i=True, j=True, k=True),
    Op("delslice_step", lambda t, a: t.__delitem__(_slice(a)), i=True, j=True, k=True),
    Op("getslice_step", lambda t, a: t.__getitem__(_slice(a)), i=True, j=True, k=True, mut=False),
]

DICT_READERS = [
    Op("getitem", lambda t, a: t["p"], mut=False),
    Op("getitem_missing", lambda t, a: t["q"], mut=False),
    Op("get", lambda t, a: t.get("p"), mut=False),
    Op("get_missing", lambda t, a: t.get("q"), mut=False),
    Op("get_missing_default", lambda t, a: t.get("q", a.v), v=True, mut=False),
    Op("len", lambda t, a: len(t), mut=False),
    Op("iter", lambda t, a: list(iter(t)), mut=False),
    Op("contains", lambda t, a: "p" in t, mut=False),
    Op("contains_missing", lambda t, a: "q" in t, mut=False),
    Op("call", lambda t, a: t(), ref=lambda t, a: copy_tree(t), mut=False),
    Op("eq_plain", lambda t, a: t == a.v, v=True, mut=False),
    Op("ne_plain", lambda t, a: t != a.v, v=True, mut=False),
    Op("keys", lambda t, a: list(t.keys()), mut=False),
    Op("values", lambda t, a: list(t.values()), mut=False),
    Op("items", lambda t, a: [list(kv) for kv in t.items()], mut=False),
    Op("repr", lambda t, a: native(repr, t), mut=False, concrete=True),
    Op("str", lambda t, a: native(str, t), mut=False, concrete=True),
    Op("bool", lambda t, a: bool(t), mut=False),
]

LIST_READERS = [
    Op("getitem", lambda t, a: t[a.i], i=True, mut=False),
    Op("getslice", lambda t, a: t[a.i:a.j], i=True, j=True, mut=False),
    Op("len", lambda t, a: len(t), mut=False),
    Op("iter", lambda t, a: list(iter(t)), mut=False),
    Op("reversed", lambda t, a: list(reversed(t)), mut=False),
    Op("contains", lambda t, a: a.v in t, v=True, mut=False),
    Op("index", lambda t, a: t.index(a.v), v=True, mut=False),
    Op("count", lambda t, a: t.count(a.v), v=True, mut=False),
    Op("call", lambda t, a: t(), ref=lambda t, a: copy_tree(t), mut=False),
    Op("eq_plain", lambda t, a: t == a.v, v=True, mut=False),
    Op("ne_plain", lambda t, a: t != a.v, v=True, mut=False),
    Op("lt_plain", lambda t, a: t < a.v, v=True, mut=False),
    Op("le_plain", lambda t, a: t <= a.v, v=True, mut=False),
    Op("gt_plain", lambda t, a: t > a.v, v=True, mut=False),
    Op("ge_plain", lambda t, a: t >= a.v, v=True, mut=False),
    Op("repr", lambda t, a: native(repr, t), mut=False, concrete=True),
    Op("str", lambda t, a: native(str, t), mut=False, concrete=True),
    Op("bool", lambda t, a: bool(t), mut=False),
]


def mutators(kind):
    return DICT_MUTATORS if kind == "dict" else LIST_MUTATORS


def readers(kind):
    return DICT_READERS if kind == "dict" else LIST_READERS


# public callables of the data-type classes that the tables above are known to cover;
# anything else public on a class makes the coverage guard fail loudly.
COVERED_PUBLIC = {
    "dict": {"clear", "get", "items", "keys", "pop", "popitem", "reset", "setdefault", "update", "values"},
    "list": {"append", "clear", "count", "extend", "index", "insert", "pop", "remove", "reset", "reverse"},
}
NON_DATA_PUBLIC = {
    # configuration / plumbing, not data operations
    "is_base_type", "registry", "enable_multithreading", "disable_multithreading",
    "filename", "buffered", "buffer_backend", "backend_is_buffered", "get_buffer_capacity",
    "set_buffer_capacity", "get_current_buffer_size", "client", "key", "collection", "uid",
    "codec", "group", "name",
}


def uncovered_public(cls, kind):
    """Public attributes of `cls` that no table covers (a new entry point)."""
    out = []
    for n in dir(cls):
        if n.startswith("_"):
            continue
        if n in COVERED_PUBLIC[kind] or n in NON_DATA_PUBLIC:
            continue
        out.append(n)
    return out
