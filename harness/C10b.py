"""C10 (b) no interleaving deadlocks: Engine C circular-wait queries (and conflict
cycles as a by-product) over programs that mix every kind of lock user: unbuffered and
buffered mutators with scalar and container values (child constructors take the class
lock), clear/reset, reads, the filename setter, partially consumed iterators."""
OPS = {"dict": ["setitem_new", "setitem_new+c", "update_two_new", "clear", "reset", "pop", "getitem", "call", "iterate_partially", "filename_set"],
       "list": ["append", "append+c", "extend", "clear", "reset", "pop", "getitem", "call", "iterate_partially", "filename_set"]}


def specs(tier):
    out = []
    combos = [("JSON", None), ("BufferedJSON", None), ("BufferedJSON", ["backend", None]), ("MemoryBufferedJSON", ["backend", None]), ("MemoryBufferedJSON", ["backend", 0])]
    if tier == "thorough":
        combos += [("JSONAttr", None), ("MemoryBufferedJSON", None), ("BufferedJSON", ["backend", 0]), ("BufferedJSONAttr", ["backend", None])]
    for fam, ctx in combos:
        for which in ("dict", "list"):
            t = OPS[which] + (["exit_ctx"] if ctx else [])  # one thread leaves the buffered context while the other works
            for rel in ("same", "two"):
                for i, a in enumerate(t):
                    for b in t[i:]:
                        if "filename_set" in (a, b) and rel == "same":
                            continue  # the filename clause is about OTHER objects bound to the old file
                        if a == "exit_ctx" and b == "exit_ctx":
                            continue
                        out.append({"fam": fam, "which": which, "relation": rel, "op1": a, "op2": b, "ctx": ctx, "variants": False, "cycles": "exit_ctx" in (a, b), **({"outcome_keys": ["leaked_locks"]} if "exit_ctx" in (a, b) else {})})
    return out


def fingerprint(r):
    s = r["spec"]
    v = r.get("violation", {})
    return {"part": "deadlock", "kind": v.get("kind"), "relation": s["relation"], "ops": sorted({s["op1"], s["op2"]}), "family": s["fam"], "buffered": bool(s.get("ctx")),
            "reader_involved": any(x in ("getitem", "call", "iterate_partially") for x in (s["op1"], s["op2"]))}
