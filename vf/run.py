"""./vcheck <ID> <quick|thorough> [--replay file]

Exit codes: 0 held (or only known findings); 1 VIOLATION (replayed against the real
environment); 2 harness error (vacuous harness, model validation failure, crash of the
machinery); 3 counterexample that does not reproduce (model mismatch, inconclusive)."""
import hashlib
import importlib
import json
import os
import subprocess
import sys
import time

from . import se_runner
from .se_runner import Job, ROOT

_EXPERIMENT = os.environ.get("VF_REPO", "/repo") != "/repo"  # seeded-change experiment on a scratch tree
_BASE = os.path.join("/tmp", "vf_experiment_" + os.path.basename(os.environ.get("VF_REPO", ""))) if _EXPERIMENT else ROOT
EVID = os.path.join(_BASE, "evidence")
REPLAYS = os.path.join(_BASE, "replays")


def write_evidence(pid, ev):
    os.makedirs(EVID, exist_ok=True)
    with open(os.path.join(EVID, f"{pid}.json"), "w") as f:
        json.dump(ev, f, indent=1, default=repr, sort_keys=True)


def save_replay(pid, record):
    os.makedirs(REPLAYS, exist_ok=True)
    digest = hashlib.sha1(json.dumps(record, sort_keys=True, default=repr).encode()).hexdigest()[:10]
    path = os.path.join(REPLAYS, f"{pid}-{digest}.json")
    with open(path, "w") as f:
        json.dump(record, f, indent=1, default=repr)
    return path


def batch_replay(items, known_on=True, timeout=600):
    payload = json.dumps({"batch": items})
    env = dict(os.environ)
    env["VF_MODE"] = "real"
    env["VF_KNOWN"] = "on" if known_on else "off"
    try:
        p = subprocess.run([sys.executable, "-m", "vf.replay"], input=payload, capture_output=True, text=True, timeout=timeout, cwd=ROOT, env=env)
    except subprocess.TimeoutExpired:
        return None, "timeout"
    for line in p.stdout.splitlines()[::-1]:
        if line.startswith("REPLAY-RESULT "):
            return json.loads(line[len("REPLAY-RESULT "):])["batch"], ""
    return None, (p.stdout[-1500:] + p.stderr[-1500:])


def verify_A(mod, tier, seed=0):
    """Run an Engine-A harness module.  Returns a result dict (see finish())."""
    pid = mod.PID
    t0 = time.time()
    if not os.environ.get("VF_DEADLINE_TS"):
        # safety net: partitions that have not started when the tier's budget is used up are
        # skipped and reported as not explored (the per-partition CrossHair timeout bounds the rest)
        os.environ["VF_DEADLINE_TS"] = str(t0 + float(os.environ.get("VF_BUDGET_S", "1200" if tier == "quick" else "2400")))
    plan = mod.plan(tier)
    only = [x for x in os.environ.get("VF_ONLY", "").split(",") if x]
    if only:  # experiments only: restrict to some harness functions
        plan = [it for it in plan if it["fn"] in only]
    modname = mod.__name__
    res = new_result(pid, tier, seed)
    jobs = []
    for item in plan:
        # vacuity twin: partition 0 of every harness function must be refuted in reach mode
        jobs.append(Job(modname, item["fn"], 0, item["nparts"], timeout=min(60, item["timeout"]), mode="reach", tier=tier))
    for item in plan:
        for part in range(item["nparts"]):
            jobs.append(Job(modname, item["fn"], part, item["nparts"], timeout=item["timeout"], mode="check", tier=tier))
    if seed:
        import random

        random.Random(seed).shuffle(jobs)
    results = se_runner.run_jobs(jobs)
    absorb_A(res, mod, jobs, results)
    # concrete smoke of the same harnesses in the real environment (model validation)
    smoke = list(mod.smoke(tier)) if hasattr(mod, "smoke") else []
    if only:
        smoke = [it for it in smoke if it[0] in only]
    if smoke and not res["violations"]:
        items = [{"module": modname, "fn": it[0], "call": {"args": list(it[1]), "kwargs": {}}, "ctx": {"part": it[2] if len(it) > 2 else 0, "nparts": it[3] if len(it) > 3 else 1, "tier": tier}} for it in smoke]
        out, err = batch_replay(items, timeout=max(900, len(items)))
        if out is None:
            res["harness_errors"].append(f"real-environment smoke failed to run: {err}")
        else:
            for it, o in zip(items, out):
                res["traces_validated"] += 1
                if o["outcome"] != "pass":
                    res["mismatch"].append({"what": "harness fails concretely in the real environment although the solver run did not refute it", "fn": it["fn"], "call": it["call"], "outcome": o})
    res["wall_s"] = round(time.time() - t0, 2)
    return res


def new_result(pid, tier, seed):
    return {
        "pid": pid, "tier": tier, "seed": seed, "violations": [], "known_hits": {}, "mismatch": [],
        "harness_errors": [], "inconclusive": [], "partitions": 0, "confirmed": 0, "paths": 0,
        "queries": 0, "solver_s": 0.0, "cases": set(), "samples": [], "traces_validated": 0,
        "per_fn": {}, "wall_s": 0.0,
    }


def absorb_A(res, mod, jobs, results):
    pid = res["pid"]
    modname = mod.__name__
    for job, r in zip(jobs, results):
        if "error" in r:
            res["harness_errors"].append(f"{job.label} ({job.mode}): {r['error'][-1500:]}")
            continue
        states = [m["state"] for m in r["messages"]]
        if job.mode == "reach":
            if not any(s in ("POST_FAIL",) for s in states):
                # not refuted within its (short) time limit: reachability is then established by
                # the cases the check partitions of the same function record (decided below)
                res.setdefault("_unrefuted_twins", {})[job.fn] = states
            continue
        res["partitions"] += 1
        if r.get("skipped"):
            res["inconclusive"].append(f"{job.label}: not explored, the time budget of the {job.tier} tier was used up before it could start")
            continue
        res["paths"] += r["num_paths"]
        res["queries"] += r["queries"]
        res["solver_s"] += r["solver_s"]
        pf = res["per_fn"].setdefault(job.fn, {"partitions": 0, "confirmed": 0, "paths": 0, "cases": 0, "wall_s": 0.0})
        pf["partitions"] += 1
        pf["paths"] += r["num_paths"]
        pf["wall_s"] = max(pf["wall_s"], r["wall_s"])
        for c in r["cases"]:
            res["cases"].add((job.fn,) + tuple(c))
        pf["cases"] += len(r["cases"])
        for k, h in r["hits"].items():
            res["known_hits"].setdefault(k, {"fn": job.fn, "ctx": {"part": job.part, "nparts": job.nparts, "tier": job.tier}, **h})
        bad = [m for m in r["messages"] if m["state"] in ("POST_FAIL", "EXEC_ERR", "POST_ERR", "SYNTAX_ERR", "IMPORT_ERR")]
        if bad:
            for m in bad:
                if m["call"] is None:
                    res["harness_errors"].append(f"{job.label}: {m['state']} {m['message'][:500]}")
                    continue
                ctx = {"part": job.part, "nparts": job.nparts, "tier": job.tier}
                rep = se_runner.replay(modname, job.fn, m["call"], ctx, extra_env={"VF_KNOWN": "on"})
                res["traces_validated"] += 1
                record = {"property": pid, "harness": f"{modname}.{job.fn}", "call": m["call"], "ctx": ctx, "solver_message": m["message"], "replay": rep}
                if rep["outcome"] in ("fail", "exception", "timeout"):
                    res["violations"].append(record)
                else:
                    res["mismatch"].append({"what": "solver counterexample does not reproduce in the real environment", **record})
        elif "CONFIRMED" in states:
            if not r["cases"] and not r["hits"]:
                res["harness_errors"].append(f"{job.label}: confirmed but no case reached the assertion (vacuous partition)")
            else:
                res["confirmed"] += 1
                pf["confirmed"] += 1
        elif "PRE_UNSAT" in states:
            res["harness_errors"].append(f"{job.label}: unable to meet precondition")
        else:
            res["inconclusive"].append(f"{job.label}: {states or 'no verdict'} after {r['num_paths']} paths / {r['wall_s']}s")
    for fn, states in res.pop("_unrefuted_twins", {}).items():
        if res["per_fn"].get(fn, {}).get("cases", 0) == 0:
            res["harness_errors"].append(f"vacuity twin of {fn} was not refuted (states {states}) and no partition of it recorded a case: the harness never reaches its assertion")


def confirm_known_hits(res, mod):
    """Every known-finding hit is replayed (suppression off) in the real environment:
    it must really fail there, otherwise the model and the library disagree."""
    from . import findings

    F = findings.Findings()
    lines = []
    for key, h in sorted(res["known_hits"].items()):
        fn = h.get("fn")
        modname = h.get("module", mod.__name__)
        rep = se_runner.replay(modname, fn, {"args": h["args"], "kwargs": {}}, h.get("ctx"), extra_env={"VF_KNOWN": "off"})
        res["traces_validated"] += 1
        ent = F.by_id(key)
        if rep["outcome"] in ("fail", "exception", "timeout"):
            lines.append(f"KNOWN-FINDING: property={res['pid']} {ent['what']} [{key}]")
            h["replayed"] = rep["outcome"]
        else:
            res["mismatch"].append({"what": f"known finding {key} was hit in the model but does not reproduce in the real environment", "fn": fn, "args": h["args"], "replay": rep})
    return lines


def finish(res, mod, extra_cov=None):
    pid = res["pid"]
    known_lines = confirm_known_hits(res, mod) if res["known_hits"] else []
    code = 0
    out = []
    for v in res["violations"]:
        path = save_replay(pid, v)
        out.append(f"VIOLATION property={pid} replay={path}")
        code = 1
    if code == 0 and res["mismatch"]:
        for m in res["mismatch"]:
            out.append(f"INCONCLUSIVE model-mismatch property={pid} {json.dumps(m, default=repr)[:1500]}")
        code = 3
    if code == 0 and res["harness_errors"]:
        for e in res["harness_errors"]:
            out.append(f"HARNESS-ERROR property={pid} {e}")
        code = 2
    out.extend(known_lines)
    for i in res["inconclusive"]:
        out.append(f"INCONCLUSIVE property={pid} {i}")
    cases = sorted(res["cases"], key=repr)
    exhaustive = (res["partitions"] > 0 and res["confirmed"] == res["partitions"] and not res["inconclusive"] and code == 0)
    cov = {
        "states": max(1, len(cases)),
        "transitions": max(1, res["paths"]),
        "traces_validated_against_impl": res["traces_validated"],
        "evaluations": max(1, res["paths"]),
        "distinct_nontrivial": len(cases),
        "rule": "evaluations/transitions = symbolic execution paths explored by CrossHair (each path is one equivalence class of inputs that take the same branches through the real library code and the harness; z3 decides feasibility of every branch); states/distinct_nontrivial = distinct concrete case labels (class, operation, shapes, handle ...) recorded by paths that reached the assertion; traces_validated_against_impl = harness executions replayed concretely in the real environment (real files, real json, real locks)",
        "samples": [list(c) for c in cases[:: max(1, len(cases) // 12)][:14]] or ["<none>"],
        "exhaustive": exhaustive,
        "partitions_total": res["partitions"],
        "partitions_confirmed_over_all_paths": res["confirmed"],
        "partitions_inconclusive": res["inconclusive"],
        "solver_queries": res["queries"],
        "solver_seconds": round(res["solver_s"], 2),
        "per_harness": res["per_fn"],
        "known_findings_hit": {k: {"fp": v.get("fp"), "args": v.get("args"), "replayed": v.get("replayed")} for k, v in res["known_hits"].items()},
        "functions_encoded": se_runner.source_fingerprint(getattr(mod, "FUNCTIONS", [])),
        "bounds": getattr(mod, "BOUNDS", {}).get(res["tier"], getattr(mod, "BOUNDS", {})),
        "outside_the_claim": getattr(mod, "OUTSIDE", []),
        "verdict": {0: "holds-within-bounds" if exhaustive else "no-violation-found (not exhaustive)", 1: "violated", 2: "harness-error", 3: "inconclusive (model mismatch)"}[code],
    }
    if extra_cov:
        cov.update(extra_cov)
    ev = {
        "property_id": pid,
        "tier": res["tier"],
        "seed": res["seed"],
        "level": getattr(mod, "LEVEL", "model_checking"),
        "coverage": cov,
        "assumptions": getattr(mod, "ASSUMPTIONS", []),
        "wall_s": res["wall_s"],
        "violations": len(res["violations"]),
    }
    write_evidence(pid, ev)
    for line in out:
        print(line)
    print(f"SUMMARY property={pid} tier={res['tier']} verdict={cov['verdict']} partitions={res['confirmed']}/{res['partitions']} paths={res['paths']} cases={len(cases)} queries={res['queries']} solver_s={cov['solver_seconds']} replays={res['traces_validated']} wall_s={res['wall_s']}")
    return code


def main(argv):
    if len(argv) < 2:
        print(__doc__)
        return 2
    pid, tier = argv[0], argv[1]
    seed = int(os.environ.get("VERIF_SEED", "0") or 0)
    tier = os.environ.get("VERIF_TIER", tier) if tier not in ("quick", "thorough") else tier
    try:
        mod = importlib.import_module(f"harness.{pid}")
    except ModuleNotFoundError:
        print(f"HARNESS-ERROR no harness for {pid}")
        return 2
    if "--replay" in argv:
        rec = json.load(open(argv[argv.index("--replay") + 1]))
        m, _, fn = rec["harness"].rpartition(".")
        rep = se_runner.replay(m, fn, rec["call"], rec.get("ctx"), extra_env={"VF_KNOWN": "on"})
        print(json.dumps(rep, indent=1))
        return 1 if rep["outcome"] != "pass" else 0
    t0 = time.time()
    try:
        if hasattr(mod, "main"):
            return mod.main(tier, seed)
        res = verify_A(mod, tier, seed)
        res["wall_s"] = round(time.time() - t0, 2)
        return finish(res, mod)
    except Exception as e:
        import traceback

        traceback.print_exc()
        print(f"HARNESS-ERROR property={pid} {type(e).__name__}: {e}")
        return 2


if __name__ == "__main__":
    sys.exit(main(sys.argv[1:]))
