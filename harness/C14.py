"""C14 Readers next to writers: no lost update, no impossible state, no error.  Engine C.

Programs: one read operation in one thread, one mutating operation in the other, on the
same object or on two objects bound to one file, unbuffered and inside a backend-wide
buffered context of both strategies."""
from vf import hlib, ops, conc_run

PID = "C14"
ENGINE = "C"

READERS = {"dict": ["getitem", "get", "len", "iter", "call", "eq_plain", "contains", "keys", "values", "items", "getitem_child"],
           "list": ["getitem", "len", "iter", "call", "eq_plain", "contains", "index", "count", "reversed", "getslice"]}
WRITERS_Q = {"dict": ["setitem_new", "setitem_replace", "delitem", "pop", "clear", "reset", "update_two_new", "setdefault_new"],
             "list": ["append", "setitem", "delitem", "insert", "pop", "clear", "reset", "reverse"]}


def specs(tier):
    out = []
    combos = [("JSON", None)] if tier == "quick" else [("JSON", None), ("JSONAttr", None)]
    combos += [("BufferedJSON", ("backend", None)), ("MemoryBufferedJSON", ("backend", None))]
    if tier == "thorough":
        combos += [("BufferedJSON", None), ("MemoryBufferedJSON", None), ("BufferedJSON", ("backend", 0)), ("MemoryBufferedJSON", ("backend", 0))]
    for fam, ctx in combos:
        for which in ("dict", "list"):
            writers = [o.name for o in ops.mutators(which)] if (tier == "thorough" and fam == "JSON") else WRITERS_Q[which]
            for rel in ("same", "two"):
                for r in READERS[which]:
                    if r == "getitem_child":
                        continue
                    for w in writers:
                        out.append({"fam": fam, "which": which, "relation": rel, "op1": r, "op2": w, "ctx": list(ctx) if ctx else None, "variants": tier == "thorough" and fam == "JSON"})
    return out


def fingerprint(r):
    s = r["spec"]
    v = r.get("violation", {})
    o = v.get("outcome") or {}
    reader_res = (o.get("r1") or [None])[0]
    writer_res = (o.get("r2") or [None])[0]
    return {"kind": v.get("kind"), "relation": s["relation"], "reader": s["op1"], "writer": s["op2"], "buffered": bool(s.get("ctx")), "family": s["fam"],
            "reader_result": reader_res, "writer_result": writer_res, "classes": sorted({c[0] for c in v.get("classes", [])}),
            "has_COUNT": any(c[0] == "COUNT" for c in v.get("classes", [])), "has_BUF": any(c[0] == "BUF" for c in v.get("classes", [])),
            "reader_window": v.get("t1_window")}


def main(tier, seed):
    import harness.C14 as me

    return conc_run.run(PID, tier, seed, specs(tier), me, fingerprint)


BOUNDS = {"quick": {"classes": "JSONDict/JSONList unbuffered; BufferedJSON and MemoryBufferedJSON dict/list inside buffer_backend()", "threads": "1 reader + 1 writer", "readers": READERS, "writers": WRITERS_Q, "relations": ["same", "two"]},
          "thorough": {"writers": "all table mutators for the unbuffered JSON family (with trace variants), the quick table elsewhere", "extra": "JSONAttr, buffered classes outside contexts, capacity-0 contexts"}}
ASSUMPTIONS = [
    "the admissible outcomes are those of the two serial orders computed on the real library (the read returns the value before or after the write; the final state contains the write)",
    "conflict-serializability of the recorded events is a sufficient condition; sat witnesses count only after replay on real threads",
    "shared locations coarsened per root tree / suspend counter / file / buffer field",
]
OUTSIDE = ["more than one reader and one writer", "preemption inside C code", "control flow not present in the recorded traces"]
