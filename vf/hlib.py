"""Shared vocabulary of the Engine-A harnesses: class families, value shapes,
operation tables, the plain reference model, per-path recorders."""
import os

from . import env_model
from .env_model import MISSING, CORRUPT, Crash, get_env, copy_tree, same_tree  # noqa

# ----------------------------------------------------------------------------------
# per-path side channel (worker-process globals, read back by the runner)
# ----------------------------------------------------------------------------------
CASES = set()  # labels of the concrete case a path ran (class, op, shapes ...)
HITS = {}  # known-finding fingerprint key -> first realised args
MODE = "check"  # check | reach
PART = 0  # partition index (concrete, set by the worker before analysis)
NPARTS = 1
TIER = "quick"
KNOWN = None  # findings.Findings


def case(*labels):
    CASES.add(tuple(labels))


def finish(reached, ok):
    """Common return convention of every harness (vacuity twin built in)."""
    if MODE == "reach":
        return not reached
    return (not reached) or ok


DETAIL = []  # human-readable failure details (filled in real mode only)


def fail(fn):
    """Record why a harness is about to return False (formatted in real mode only --
    formatting symbolic values would realise them)."""
    if get_env().mode == "real":
        try:
            DETAIL.append(fn())
        except Exception as e:  # pragma: no cover
            DETAIL.append(f"<detail failed: {e!r}>")
    elif os.environ.get("VF_DEBUG"):
        # debugging aid: print the failure text of a symbolic path (realises values)
        try:
            import sys

            print("VF_DEBUG fail:", fn(), file=sys.stderr)
        except BaseException as e:  # noqa
            print("VF_DEBUG fail: <unprintable>", type(e).__name__, file=sys.stderr)
    return False


def known(pid, fp, args):
    """True when (pid, fp) matches an open entry of known_findings.json: the path is
    then recorded as a hit of that finding and ends as passing."""
    if KNOWN is None:
        return False
    ent = KNOWN.match(pid, fp)
    if ent is None:
        return False
    key = ent["id"]
    if key not in HITS:
        try:
            from crosshair.core import deep_realize

            args = deep_realize(args)
        except Exception:
            pass
        HITS[key] = {"fp": dict(fp), "args": list(args)}
    return True


def pick(seq, sel):
    """Solver-driven choice: forks once per option; None when out of range."""
    i = 0
    for x in seq:
        if sel == i:
            return x
        i += 1
    return None


def in_part(idx):
    return idx % NPARTS == PART


# ----------------------------------------------------------------------------------
# class families
# ----------------------------------------------------------------------------------


class Fam:
    def __init__(self, name, kind, mod, dname, lname, buffered=None, attr=False):
        self.name = name
        self.kind = kind
        self.mod = mod
        self.dname = dname
        self.lname = lname
        self.buffered = buffered  # None | "serialized" | "memory"
        self.attr = attr

    def _m(self):
        import importlib

        return importlib.import_module(self.mod)

    @property
    def D(self):
        return getattr(self._m(), self.dname)

    @property
    def L(self):
        return getattr(self._m(), self.lname)

    def cls(self, which):
        return self.D if which == "dict" else self.L

    def make(self, env, which, res, **kw):
        c = self.cls(which)
        if self.kind == "json":
            return c(filename=env.path(res), **kw)
        if self.kind == "redis":
            return c(client=env.redis, key=res, **kw)
        if self.kind == "mongo":
            return c(collection=env.mongo, uid={"id": res}, **kw)
        if self.kind == "zarr":
            return c(group=env.zarr, name=res, **kw)
        raise AssertionError(self.kind)

    def read(self, env, res):
        """Content of the resource, read independently of the library."""
        if self.kind == "json":
            return env.read_doc(res)
        if self.kind == "redis":
            return env.decode(env.redis.store.get(res))
        if self.kind == "mongo":
            for d in env.mongo.docs:
                if d.get("id") == res:
                    return copy_tree(d["data"])
            return MISSING
        if self.kind == "zarr":
            if res not in env.zarr.data:
                return MISSING
            return env.decode(env.zarr.data[res])

    def write(self, env, res, tree):
        """Outside writer."""
        if self.kind == "json":
            env.write_doc(res, tree)
        elif self.kind == "redis":
            env.redis.store[res] = env.encode(tree)
        elif self.kind == "mongo":
            env.mongo.docs[:] = [d for d in env.mongo.docs if d.get("id") != res]
            env.mongo.docs.append({"id": res, "data": copy_tree(tree)})
        elif self.kind == "zarr":
            env.zarr.codecs[res] = env._numcodecs_proxy.JSON()
            env.zarr.data[res] = env.json.dumps(copy_tree(tree))

    def writes(self, env):
        """Number of write effects on the backend so far."""
        if self.kind == "json":
            return env.fs.effects
        return env.store_writes


_J = "synced_collections.backends.collection_json"
FAMILIES = [
    Fam("JSON", "json", _J, "JSONDict", "JSONList"),
    Fam("BufferedJSON", "json", _J, "BufferedJSONDict", "BufferedJSONList", "serialized"),
    Fam("MemoryBufferedJSON", "json", _J, "MemoryBufferedJSONDict", "MemoryBufferedJSONList", "memory"),
    Fam("JSONAttr", "json", _J, "JSONAttrDict", "JSONAttrList", attr=True),
    Fam("BufferedJSONAttr", "json", _J, "BufferedJSONAttrDict", "BufferedJSONAttrList", "serialized", True),
    Fam("MemoryBufferedJSONAttr", "json", _J, "MemoryBufferedJSONAttrDict", "MemoryBufferedJSONAttrList", "memory", True),
    Fam("Redis", "redis", "synced_collections.backends.collection_redis", "RedisDict", "RedisList"),
    Fam("MongoDB", "mongo", "synced_collections.backends.collection_mongodb", "MongoDBDict", "MongoDBList"),
    Fam("Zarr", "zarr", "synced_collections.backends.collection_zarr", "ZarrDict", "ZarrList"),
]
FAM = {f.name: f for f in FAMILIES}
JSON_FAMILIES = [f for f in FAMILIES if f.kind == "json"]
BUFFERED_FAMILIES = [f for f in FAMILIES if f.buffered]

# ----------------------------------------------------------------------------------
# value shapes
# ----------------------------------------------------------------------------------
SLOT = "<L>"

D1 = [
    ("leaf", SLOT),
    ("null", None),
    ("{}", {}),
    ("{p}", {"p": SLOT}),
    ("{p,q}", {"p": SLOT, "q": SLOT}),
    ("[]", []),
    ("[x]", [SLOT]),
    ("[x,y]", [SLOT, SLOT]),
]
# containers only
D1C = [s for s in D1 if isinstance(s[1], (dict, list))]
# depth-2: one container nested in a container (plus a sibling)
D2 = D1 + [
    ("{p:{}}", {"p": {}}),
    ("{p:{p}}", {"p": {"p": SLOT}}),
    ("{p:[x]}", {"p": [SLOT]}),
    ("{p:{p},q}", {"p": {"p": SLOT}, "q": SLOT}),
    ("{p:[x,y],q:{q}}", {"p": [SLOT, SLOT], "q": {"q": SLOT}}),
    ("[[]]", [[]]),
    ("[{p}]", [{"p": SLOT}]),
    ("[[x]]", [[SLOT]]),
    ("[x,{p}]", [SLOT, {"p": SLOT}]),
    ("[[x],[y]]", [[SLOT], [SLOT]]),
]
D3_SPINE = [
    ("{p:{p:{p}}}", {"p": {"p": {"p": SLOT}}}),
    ("{p:[{q}]}", {"p": [{"q": SLOT}]}),
    ("[[[x]]]", [[[SLOT]]]),
    ("[{p:[x]}]", [{"p": [SLOT]}]),
]


class Leaves:
    """Hands out the harness's symbolic leaves in order, then falls back to constants."""

    def __init__(self, *vals):
        self.vals = list(vals)
        self.i = 0

    def next(self):
        if self.i < len(self.vals):
            v = self.vals[self.i]
        else:
            v = 100 + self.i
        self.i += 1
        return v


def fill(template, leaves):
    if isinstance(template, str) and template == SLOT:
        return leaves.next()
    if isinstance(template, dict):
        return {k: fill(v, leaves) for k, v in template.items()}
    if isinstance(template, list):
        return [fill(v, leaves) for v in template]
    if isinstance(template, tuple):
        return tuple(fill(v, leaves) for v in template)
    return template


def kind_of(v):
    if isinstance(v, dict):
        return "dict"
    if isinstance(v, list):
        return "list"
    if v is None:
        return "null"
    return "scalar"


# ----------------------------------------------------------------------------------
# plain conversion / comparison
# ----------------------------------------------------------------------------------


def _sc():
    from synced_collections.data_types.synced_collection import SyncedCollection

    return SyncedCollection


def plain(x):
    """Convert any result to plain data (synced nodes via their own conversion)."""
    SC = _sc()
    if isinstance(x, SC):
        return plain(x._to_base())
    if isinstance(x, dict):
        return {k: plain(v) for k, v in x.items()}
    if isinstance(x, (list, tuple)):
        return [plain(v) for v in x]
    return x


def is_plain(x):
    """Only dict(str keys)/list/str/int/float/bool/None, exact builtin containers."""
    if type(x) is dict:
        for k, v in x.items():
            if not isinstance(k, str) or not is_plain(v):
                return False
        return True
    if type(x) is list:
        for v in x:
            if not is_plain(v):
                return False
        return True
    return x is None or isinstance(x, (bool, int, float, str))


def eq_plain(a, b):
    """Python equality on plain data (1 == True allowed; used where the property says
    'compared as plain data')."""
    if isinstance(a, dict) or isinstance(b, dict):
        if not (isinstance(a, dict) and isinstance(b, dict)) or len(a) != len(b):
            return False
        for k in a:
            if k not in b or not eq_plain(a[k], b[k]):
                return False
        return True
    if isinstance(a, (list, tuple)) or isinstance(b, (list, tuple)):
        if not (isinstance(a, (list, tuple)) and isinstance(b, (list, tuple))) or len(a) != len(b):
            return False
        for x, y in zip(a, b):
            if not eq_plain(x, y):
                return False
        return True
    if a is None or b is None:
        return a is None and b is None
    if isinstance(a, str) != isinstance(b, str):
        return False
    return bool(a == b)


def at(doc, path):
    for k in path:
        doc = doc[k]
    return doc


def exc_class_ok(e_lib, e_ref):
    """Library raises the reference's exception class or a subclass of it."""
    if e_lib is None or e_ref is None:
        return e_lib is None and e_ref is None
    return isinstance(e_lib, type(e_ref))


# ----------------------------------------------------------------------------------
# representation invariant of an unbuffered tree
# ----------------------------------------------------------------------------------


def check_inv(root, fam, env=None):
    """Inv: suspend counter 0, every container node is a synced node of the root's
    family whose _root is the root, _data containers are builtins.  Returns '' or a
    description of the first problem."""
    SC = _sc()
    if root._suspend_sync._count != 0:
        return "suspend counter not 0"
    stack = [(root, ())]
    while stack:
        node, path = stack.pop()
        d = node._data
        if isinstance(node, fam.D) or (isinstance(d, dict)):
            if type(d) is not dict:
                return f"_data at {path} is {type(d).__name__}"
            if type(node) is not fam.D:
                return f"node at {path} is {type(node).__name__}, want {fam.dname}"
            items = list(d.items())
        else:
            if type(d) is not list:
                return f"_data at {path} is {type(d).__name__}"
            if type(node) is not fam.L:
                return f"node at {path} is {type(node).__name__}, want {fam.lname}"
            items = list(enumerate(d))
        if path and node._root is not root:
            return f"node at {path} has a foreign _root"
        if path and node._suspend_sync is not root._suspend_sync:
            return f"node at {path} does not share the root's suspend counter"
        for k, v in items:
            if isinstance(v, SC):
                stack.append((v, path + (k,)))
            elif isinstance(v, (dict, list, tuple)):
                return f"raw container at {path + (k,)}"
    return ""
