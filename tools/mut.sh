#!/bin/bash
# usage: tools/mut.sh <seeded-dir-name> <ID> [tier]
# Experiment runner: applies the seeded change in a scratch worktree of /repo (HEAD, i.e. with the
# fix: commits) and runs the check against that tree (VF_REPO), then removes the worktree.
S=$1; ID=$2; TIER=${3:-quick}; WT=/tmp/mw_${S}_$ID
git -C /repo worktree add -q --detach $WT HEAD || exit 9
if ! git -C $WT apply /verif/seeded/$S/patch.diff 2>/dev/null; then
  git -C $WT apply -3 /verif/seeded/$S/patch.diff 2>/dev/null || { echo "$S $ID APPLY-FAILED"; git -C /repo worktree remove --force $WT; exit 9; }
fi
cd /verif && VF_REPO=$WT timeout ${MUT_TIMEOUT:-2400} ./vcheck $ID $TIER > /tmp/mut_${S}_$ID.log 2>&1; RC=$?
git -C /repo worktree remove --force $WT; rm -rf /tmp/vf_experiment_$(basename $WT)
echo "$S $ID rc=$RC viol=$(grep -c '^VIOLATION' /tmp/mut_${S}_$ID.log) :: $(grep -m1 '^VIOLATION\|^HARNESS\|^INCONCLUSIVE model' /tmp/mut_${S}_$ID.log | cut -c1-160)"
