"""C08 A crash during a save leaves each JSON file wholly old or wholly new.

Engine A with a symbolic crash point.  The FS model numbers every state-changing
effect of a save (create/truncate, write, flush, close, replace); the solver chooses the
effect index at which the process dies (with or without a strict prefix of the bytes
handed to write()).  Crash points between Python lines cannot change the file system
state, so effect granularity is complete for this property.  `codec`: a serialisation
failure must happen before the first FS effect, in every write mode."""
from vf import hlib, ops
from vf.hlib import FAM, JSON_FAMILIES, MISSING, CORRUPT, Crash, case, fail, finish, get_env, pick, same_tree, copy_tree, known

PID = "C08"
WHICH = ["dict", "list"]
MODES = ["write_concern", "threading", "both", "plain"]

OPS = {
    "dict": ["setitem_new", "delitem", "clear", "reset", "update_two_new", "pop", "setdefault_new"],
    "list": ["append", "delitem", "clear", "reset", "insert", "extend", "iadd"],  # single-save operations only: reverse() is a sequence of saves
}


def _by_name(kind):
    d = {o.name: o for o in ops.mutators(kind)}
    return [d[n] for n in OPS[kind]]


def setup(fam, which, mode, env):
    cls = fam.cls(which)
    kw = {}
    if mode in ("write_concern", "both"):
        kw["write_concern"] = True
    if mode in ("write_concern", "plain"):
        cls.disable_multithreading()
    return kw


def old_doc(which, x, y):
    return {"p": x, "a": [y]} if which == "dict" else [x, [y]]


def check_file(env, name, old, new):
    """The file is wholly old or wholly new."""
    got = env.read_doc(name)
    if got is MISSING:
        return old is MISSING, got
    if got is CORRUPT:
        return False, got
    if old is not MISSING and same_tree(got, old):
        return True, got
    if new is not None and same_tree(got, new):
        return True, got
    return False, got


def save(mi: int, opi: int, k: int, partial: bool, x: int, y: int, v: int) -> bool:
    """
    pre: 0 <= k <= 8
    post: _
    """
    env = get_env().reset()
    fams = JSON_FAMILIES
    fam = fams[hlib.PART % len(fams)]
    which = WHICH[(hlib.PART // len(fams)) % 2]
    mode = pick(MODES[:3], mi)  # atomic modes only
    op = pick(_by_name(which), opi)
    k = pick(list(range(9)), k)
    if mode is None or op is None or k is None:
        return finish(False, True)
    kw = setup(fam, which, mode, env)
    old = old_doc(which, x, y)
    env.write_doc("f", old)
    obj = fam.make(env, which, "f", **kw)
    obj()  # loaded
    ref = copy_tree(old)
    try:
        op.ref(ref, ops.A(v=v, w=v, i=0, j=1))
    except Exception:
        return finish(False, True)
    base = env.fs.effects
    env.fs.crash_at = base + k
    env.fs.crash_partial = bool(partial)
    crashed = False
    try:
        op.fn(obj, ops.A(v=v, w=v, i=0, j=1))
    except Crash:
        crashed = True
    env.fs.crash_at = None
    if not crashed:
        # the save has fewer than k effects: nothing to check here (C01 checks the result)
        return finish(False, True)
    case(fam.cls(which).__name__, mode, op.name, f"crash@{k}", "prefix" if partial else "clean")
    good, got = check_file(env, "f", old, ref)
    if not good:
        return finish(True, fail(lambda: f"{fam.cls(which).__name__} mode={mode} {op.name}: crash at FS effect {k} of the save ({env.fs.log[-1]!r}, partial={partial}) left {got!r}; old {old!r}, new {ref!r}"))
    # a new collection object opens it normally
    fam.cls(which).enable_multithreading()
    try:
        fresh = fam.make(env, which, "f")()
    except Exception as e:
        return finish(True, fail(lambda: f"after the crash a fresh collection cannot open the file: {e!r}"))
    return finish(True, same_tree(fresh, got) or fail(lambda: f"fresh object reads {fresh!r}, file holds {got!r}"))


def flush(mi: int, ctx: int, k: int, partial: bool, x: int, y: int, v: int) -> bool:
    """
    pre: 0 <= k <= 14
    post: _
    """
    env = get_env().reset()
    fams = [f for f in JSON_FAMILIES if f.buffered]
    fam = fams[hlib.PART % len(fams)]
    which = WHICH[(hlib.PART // len(fams)) % 2]
    mode = pick(MODES[:3], mi)
    ctxk = pick(["object", "backend"], ctx)
    k = pick(list(range(15)), k)
    if mode is None or ctxk is None or k is None:
        return finish(False, True)
    kw = setup(fam, which, mode, env)
    cls = fam.cls(which)
    old1, old2 = old_doc(which, x, y), old_doc(which, y, x)
    env.write_doc("f1", old1)
    env.write_doc("f2", old2)
    o1 = fam.make(env, which, "f1", **kw)
    o2 = fam.make(env, which, "f2", **kw)
    new1, new2 = copy_tree(old1), copy_tree(old2)
    crashed = False
    try:
        if ctxk == "backend":
            with cls.buffer_backend():
                _mut(o1, new1, which, v)
                _mut(o2, new2, which, v)
                env.fs.crash_at = env.fs.effects + k
                env.fs.crash_partial = bool(partial)
        else:
            with o1.buffered:
                with o2.buffered:
                    _mut(o1, new1, which, v)
                    _mut(o2, new2, which, v)
                    env.fs.crash_at = env.fs.effects + k
                    env.fs.crash_partial = bool(partial)
    except Crash:
        crashed = True
    env.fs.crash_at = None
    if not crashed:
        return finish(False, True)
    case(cls.__name__, mode, ctxk, f"crash@{k}", "prefix" if partial else "clean")
    for name, old, new in (("f1", old1, new1), ("f2", old2, new2)):
        good, got = check_file(env, name, old, new)
        if not good:
            return finish(True, fail(lambda: f"{cls.__name__} mode={mode} {ctxk}-flush: crash at FS effect {k} ({env.fs.log[-1]!r}, partial={partial}) left {name} = {got!r}; old {old!r}, new {new!r}"))
    return finish(True, True)


def _mut(o, ref, which, v):
    if which == "dict":
        o["q"] = v
        ref["q"] = v
    else:
        o.append(v)
        ref.append(v)


def codec(mi: int, opi: int, nth: int, x: int, y: int, v: int) -> bool:
    """
    post: _
    """
    env = get_env().reset()
    fams = JSON_FAMILIES
    fam = fams[hlib.PART % len(fams)]
    which = WHICH[(hlib.PART // len(fams)) % 2]
    mode = pick(MODES, mi)  # all four write modes
    op = pick(_by_name(which), opi)
    nth = pick([0, 1], nth)
    if mode is None or op is None or nth is None:
        return finish(False, True)
    kw = setup(fam, which, mode, env)
    old = old_doc(which, x, y)
    env.write_doc("f", old)
    obj = fam.make(env, which, "f", **kw)
    obj()
    tok = env.file_token("f")
    base = env.fs.effects
    env.dumps_fault_at = env.codec_calls + nth
    raised = None
    try:
        op.fn(obj, ops.A(v=v, w=v, i=0, j=1))
    except Crash:
        raise
    except Exception as e:
        raised = e
    env.dumps_fault_at = None
    if not isinstance(raised, TypeError) or "injected" not in str(raised):
        return finish(False, True)
    case(fam.cls(which).__name__, mode, op.name, f"dumps#{nth}")
    got = env.read_doc("f")
    good = got is not MISSING and got is not CORRUPT and same_tree(got, old) and env.file_token("f") == tok
    return finish(True, good or fail(lambda: f"{fam.cls(which).__name__} mode={mode} {op.name}: serialisation failed but the file was touched: {got!r} (old {old!r}), FS effects {env.fs.log[base:]!r}"))


def plan(tier):
    t = 300 if tier == "quick" else 1500
    return [
        {"fn": "save", "nparts": 12, "timeout": t},
        {"fn": "flush", "nparts": 8, "timeout": t},
        {"fn": "codec", "nparts": 12, "timeout": t},
    ]


def smoke(tier):
    out = []
    for part in range(12):
        for k in range(0, 5):
            out.append(("save", (part % 3, part % 7, k, k % 2 == 0, 1, 2, 3), part, 12))
        out.append(("codec", (part % 4, part % 7, 0, 1, 2, 3), part, 12))
    for part in range(8):
        for k in (0, 1, 2, 3, 4, 5, 6, 7):
            out.append(("flush", (part % 3, part % 2, k, k % 2 == 1, 1, 2, 3), part, 8))
    return out


FUNCTIONS = [
    "synced_collections.backends.collection_json:JSONCollection._save_to_resource",
    "synced_collections.backends.collection_json:JSONCollection._load_from_resource",
    "synced_collections.buffers.serialized_file_buffered_collection:SerializedFileBufferedCollection._flush",
    "synced_collections.buffers.memory_buffered_collection:SharedMemoryFileBufferedCollection._flush",
    "synced_collections.buffers.file_buffered_collection:FileBufferedCollection._flush_buffer",
]
BOUNDS = {"quick": {"classes": "6 JSON families x dict/list", "modes": MODES, "operations": OPS, "crash_points": "every FS effect index 0..8 of a save, 0..14 of a 2-file flush, each with and without a strict prefix landing", "codec_faults": "1st and 2nd dumps call of the operation"}}
BOUNDS["thorough"] = BOUNDS["quick"]
ASSUMPTIONS = [
    "FS model: data handed to write() reaches the inode at flush()/close() (a crash before that leaves it empty or with a strict prefix); os.replace is atomic; a strict prefix of a JSON container document never parses",
    "crash points between Python lines cannot change file-system state, so crashing at every FS effect covers every instant",
    "replay mode: the same shim delegating to a real temp dir, the crash raised as a BaseException at the chosen effect (buffered bytes are dropped as kill -9 would)",
]
OUTSIDE = ["power loss / fsync ordering", "non-POSIX rename", "Windows"]
