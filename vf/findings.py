"""known_findings.json: committed, never written at run time."""
import json
import os

PATH = os.path.join(os.path.dirname(os.path.dirname(os.path.abspath(__file__))), "known_findings.json")


def _m(want, got):
    if want == "*":
        return True
    if isinstance(want, list):
        return got in want
    return want == got


class Findings:
    def __init__(self, path=PATH):
        self.entries = []
        if os.path.exists(path):
            self.entries = json.load(open(path))["findings"]

    def match(self, pid, fp):
        for e in self.entries:
            if e["property"] != pid or e.get("status") != "open":
                continue
            ok = True
            for k, v in e["fp"].items():
                if k.endswith("_subset"):
                    # every observed element must be among the listed ones (unknown observation: match)
                    got = fp.get(k[: -len("_subset")])
                    if got is None or got == ["?"]:
                        continue
                    if not all(x in v for x in got):
                        ok = False
                        break
                elif not (k in fp and _m(v, fp[k])):
                    ok = False
                    break
            if ok:
                return e
        return None

    def by_id(self, i):
        for e in self.entries:
            if e["id"] == i:
                return e
