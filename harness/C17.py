"""C17 Reading never writes.

Engine A, bounded programs: a pre-history (existing / missing resource, data given to
the constructor of a missing resource, resource removed after a load, same content
rewritten with another key order or an ==-equal leaf of another JSON type), then up to
two read operations on the root or a nested child, inside any nesting of buffered
contexts (including a backend-wide context whose capacity forces flushes because other
collections are modified).  The backend must see no write effect, the file must keep
its identity (inode, mtime, bytes) and a missing resource must stay missing."""
from vf import hlib, ops
from vf.hlib import FAMILIES, MISSING, case, fail, finish, get_env, pick, copy_tree, known

PID = "C17"
WHICH = ["dict", "list"]
PARTS = [(f, w) for f in FAMILIES for w in WHICH]
PRE = ["existing", "missing", "ctor-data-missing", "removed-after-load", "reordered", "retyped", "foreign-format"]
CTXS = ["none", "object", "backend", "object-in-backend", "backend-in-object", "backend-cap-forced"]


def valid(fam, which, pre):
    if pre == "removed-after-load":
        return fam.kind == "json"
    if pre == "reordered":
        return which == "dict"
    if pre == "foreign-format":
        return fam.kind == "json"  # a file written by another tool (indented, newline-terminated)
    return True


CELLS = [(f, w, p) for p in PRE for (f, w) in PARTS if valid(f, w, p)]


def doc_for(which, x, y):
    return {"p": x, "a": {"p": y, "s": x}} if which == "dict" else [x, {"p": y, "s": x}]


def removable(fam):
    return fam.kind == "json"


def remove_resource(env, fam):
    p = env.path("r")
    if env.mode == "model":
        env.fs.files.pop(p, None)
    else:
        import os

        os.remove(p)


def snapshot(env, fam):
    if fam.kind == "json":
        return (fam.writes(env), env.file_token("r"), tuple(env.listdir()))
    return (fam.writes(env), repr(fam.read(env, "r")) if env.mode == "real" else None)


def run_reads(obj, which, r1, r2, hs, x):
    for n, rd in enumerate((r1, r2)):
        h = obj
        kind = which
        if (hs >> n) & 1:
            try:
                h = obj["a" if which == "dict" else 1]
            except Exception:
                continue
            kind = "dict"
        table = ops.readers(kind)
        op = table[rd % len(table)]
        try:
            op.fn(h, ops.A(v=x, i=0, j=1))
        except hlib.Crash:
            raise
        except Exception:
            pass


def reads(pi: int, ci: int, r1: int, r2: int, hs: int, x: int, y: int) -> bool:
    """
    pre: 0 <= hs <= 3
    post: _
    """
    env = get_env().reset()
    fam, which, pre = CELLS[hlib.PART % len(CELLS)]  # class and pre-history fixed by the partition
    cls = fam.cls(which)
    ctx = pick(CTXS if fam.buffered else CTXS[:1], ci)
    nread = len(ops.readers(which))
    r1 = pick(list(range(nread)), r1)
    if hlib.TIER == "thorough":
        r2 = None if r1 is None else pick([(r1 + 7) % nread, (r1 + 1) % nread, 0], r2)  # derived / next / first table entry
        hs = pick([0, 1, 2, 3], hs)
    else:
        r2 = None if r1 is None else (r1 + 7) % nread  # second read derived from the first
        hs = pick([0, 1], hs)
    if ctx is None or r1 is None or r2 is None or hs is None:
        return finish(False, True)
    if ops.readers(which)[r1].concrete or ops.readers(which)[r2].concrete:
        x, y = 1, 2
    doc = doc_for(which, x, y)
    if pre == "foreign-format":
        env.write_doc("r", doc, foreign=True)
        obj = fam.make(env, which, "r")
    elif pre == "existing":
        fam.write(env, "r", doc)
        obj = fam.make(env, which, "r")
    elif pre == "missing":
        obj = fam.make(env, which, "r")
    elif pre == "ctor-data-missing":
        obj = fam.make(env, which, "r", data=copy_tree(doc))
    elif pre == "removed-after-load":
        if not removable(fam):
            return finish(False, True)
        fam.write(env, "r", doc)
        obj = fam.make(env, which, "r")
        obj()
        remove_resource(env, fam)
    elif pre == "reordered":
        if which != "dict":
            return finish(False, True)
        fam.write(env, "r", doc)
        obj = fam.make(env, which, "r")
        obj()
        fam.write(env, "r", {"a": {"s": x, "p": y}, "p": x})
        obj()  # unbuffered read: memory keeps its own key order
    else:  # retyped: an ==-equal leaf of another JSON type
        d1 = {"p": 1, "a": {"p": 0, "s": 1}} if which == "dict" else [1, {"p": 0, "s": 1}]
        d2 = {"p": True, "a": {"p": False, "s": 1}} if which == "dict" else [True, {"p": False, "s": 1}]
        fam.write(env, "r", d1)
        obj = fam.make(env, which, "r")
        obj()
        fam.write(env, "r", d2)
        obj()
    before = snapshot(env, fam)
    others = []
    try:
        if ctx == "none":
            run_reads(obj, which, r1, r2, hs, x)
        elif ctx == "object":
            with obj.buffered:
                run_reads(obj, which, r1, r2, hs, x)
        elif ctx == "backend":
            with cls.buffer_backend():
                run_reads(obj, which, r1, r2, hs, x)
        elif ctx == "object-in-backend":
            with cls.buffer_backend():
                with obj.buffered:
                    run_reads(obj, which, r1, r2, hs, x)
        elif ctx == "backend-in-object":
            with obj.buffered:
                with cls.buffer_backend():
                    run_reads(obj, which, r1, r2, hs, x)
        else:  # capacity-forced flushes caused by other collections
            cap = 1 if fam.buffered == "memory" else 8
            with cls.buffer_backend(cap):
                run_reads(obj, which, r1, r2, hs & 1, x)
                for n in ("o1", "o2", "o3"):
                    o = fam.make(env, which, n)
                    others.append(o)
                    if which == "dict":
                        o["k"] = x
                    else:
                        o.append(x)
                run_reads(obj, which, r2, r1, hs >> 1, x)
    except hlib.Crash:
        raise
    except Exception as e:
        if ctx == "object-in-backend" and known(PID, {"ctx": ctx, "raised": type(e).__name__, "family": fam.buffered, "which": which}, (pi, ci, r1, r2, hs, x, y)):
            return finish(True, True)
        return finish(True, fail(lambda: f"{cls.__name__} pre={pre} ctx={ctx}: read-only session raised {e!r}"))
    case(cls.__name__, pre, ctx, ops.readers(which)[r1].name, ops.readers(which)[r2].name, hs)
    after = snapshot(env, fam)
    if ctx == "backend-cap-forced" and fam.kind == "json":
        # other files were written: compare this resource only
        before = (None, before[1], None)
        after = (None, after[1], tuple(n for n in env.listdir() if n.startswith("._")) or None)
        before = (None, before[1], None)
    if before != after:
        return finish(True, fail(lambda: f"{cls.__name__} pre={pre} ctx={ctx} reads=({ops.readers(which)[r1].name},{ops.readers(which)[r2].name},{hs}): backend touched by reading: before {before!r}, after {after!r}, effects {env.fs.log[-6:] if hasattr(env.fs, 'log') else ''}"))
    return finish(True, True)


def plan(tier):
    return [{"fn": "reads", "nparts": len(CELLS), "timeout": 300 if tier == "quick" else 900}]


def smoke(tier):
    out = []
    for part in range(len(CELLS)):
        for ci in range(6):
            out.append(("reads", (0, ci, (part + ci) % 18, (2 * part + ci) % 18, (part + ci) % 2, 1, 2), part, len(CELLS)))
    return out


FUNCTIONS = [
    "synced_collections.data_types.synced_collection:SyncedCollection._load",
    "synced_collections.data_types.synced_collection:SyncedCollection.__getitem__",
    "synced_collections.data_types.synced_collection:SyncedCollection.__call__",
    "synced_collections.buffers.buffered_collection:BufferedCollection._load",
    "synced_collections.buffers.file_buffered_collection:FileBufferedCollection._load_from_buffer",
    "synced_collections.buffers.file_buffered_collection:FileBufferedCollection._flush_buffer",
    "synced_collections.buffers.serialized_file_buffered_collection:SerializedFileBufferedCollection._flush",
    "synced_collections.buffers.serialized_file_buffered_collection:SerializedFileBufferedCollection._initialize_data_in_buffer",
    "synced_collections.buffers.memory_buffered_collection:SharedMemoryFileBufferedCollection._flush",
    "synced_collections.backends.collection_json:JSONCollection._load_from_resource",
]
BOUNDS = {"quick": {"classes": 18, "pre_histories": PRE, "contexts": CTXS, "reads": "quick: first read any of the 18 table entries on root or nested child, second read derived; thorough: second read from three table entries, both reads on root or nested child"}}
BOUNDS["thorough"] = BOUNDS["quick"]
ASSUMPTIONS = ["environment models of vf/env_model.py; the JSON codec model is order-sensitive for object keys and type-exact for leaves, as json.dumps is", "for Redis/MongoDB/Zarr the write counters of the fake stores stand for the backend"]
OUTSIDE = ["more than two reads per session", "context nesting deeper than 2"]
