"""Concrete re-execution of harness calls in the real environment (real temp dir,
real json/hashlib/locks).  stdin: {"module","fn","call":{"args","kwargs"}} or
{"batch":[...]}; stdout: REPLAY-RESULT <json>."""
import importlib
import json
import os
import sys
import traceback


def run_one(module, fn, call, known_on, ctx=None):
    from . import hlib, findings

    ctx = ctx or {}
    hlib.MODE = "check"
    hlib.PART = ctx.get("part", 0)
    hlib.NPARTS = ctx.get("nparts", 1)
    hlib.TIER = ctx.get("tier", "quick")
    hlib.REPLAY = True
    hlib.KNOWN = findings.Findings() if known_on else None
    hlib.DETAIL.clear()
    hlib.HITS.clear()
    hlib.get_env("real")
    mod = importlib.import_module(module)
    f = getattr(mod, fn)
    try:
        r = f(*call.get("args", []), **call.get("kwargs", {}))
        out = {"outcome": "pass" if r else "fail", "detail": list(hlib.DETAIL)}
    except hlib.Crash as e:
        out = {"outcome": "exception", "detail": ["uncaught Crash " + repr(e)]}
    except Exception as e:
        out = {"outcome": "exception", "detail": list(hlib.DETAIL) + ["".join(traceback.format_exception(type(e), e, e.__traceback__))[-3000:]]}
    out["hits"] = sorted(hlib.HITS)
    return out


def main():
    req = json.loads(sys.stdin.read())
    known_on = os.environ.get("VF_KNOWN", "on") != "off"
    sys.setrecursionlimit(5000)
    if "batch" in req:
        res = [run_one(r["module"], r["fn"], r["call"], known_on, r.get("ctx")) for r in req["batch"]]
        print("REPLAY-RESULT " + json.dumps({"batch": res}, default=repr))
    else:
        print("REPLAY-RESULT " + json.dumps(run_one(req["module"], req["fn"], req["call"], known_on, req.get("ctx")), default=repr))
    try:
        hlib_env = sys.modules["vf.env_model"].ENV
        if hlib_env is not None:
            hlib_env.uninstall()
    except Exception:
        pass


if __name__ == "__main__":
    main()
