"""Environment models (stubs) injected into the library's modules.

Everything here is installed by assigning module attributes of the imported
library -- no repository change.  Two modes:

* ``model``  -- FS / JSON codec / hashlib / locks / uuid are small Python models whose
  state may hold CrossHair symbolic values; used while the solver explores.
* ``real``   -- real temp dir, real ``json``/``hashlib``; ``open``/``os`` are counting
  pass-throughs so the same harness code can observe effects.  Used to replay every
  counterexample against the untouched library before it is reported.

The models are part of the trusted base; `validate_models()` checks them
differentially against the real thing on every run.
"""
import builtins
import copy
import errno
import hashlib as _real_hashlib
import importlib
import json as _real_json
import os as _real_os
import shutil
import sys
import tempfile
import threading
import types
import uuid as _real_uuid


class Crash(BaseException):
    """Process death at an FS effect (model of kill -9)."""


class UnmodelledCall(Exception):
    """The library called something the environment model does not implement."""


class HarnessError(Exception):
    pass


MISSING = "<missing>"
CORRUPT = "<corrupt>"

# ----------------------------------------------------------------------------------
# structural JSON codec
# ----------------------------------------------------------------------------------


def _is_scalar(x):
    return x is None or isinstance(x, (bool, int, float, str))


def same_tree(a, b):
    """Structural equality with JSON type exactness (True != 1, 1 != 1.0)."""
    if isinstance(a, dict):
        if not isinstance(b, dict) or len(a) != len(b):
            return False
        for k in a:
            if k not in b:
                return False
            if not same_tree(a[k], b[k]):
                return False
        return True
    if isinstance(a, list):
        if not isinstance(b, list) or len(a) != len(b):
            return False
        for x, y in zip(a, b):
            if not same_tree(x, y):
                return False
        return True
    if isinstance(b, (dict, list)):
        return False
    if a is None or b is None:
        return a is None and b is None
    if isinstance(a, bool) or isinstance(b, bool):
        if not (isinstance(a, bool) and isinstance(b, bool)):
            return False
        return bool(a == b)
    if isinstance(a, str) or isinstance(b, str):
        if not (isinstance(a, str) and isinstance(b, str)):
            return False
        return bool(a == b)
    if isinstance(a, float) != isinstance(b, float):
        return False
    return bool(a == b)


def same_bytes(a, b):
    """Would the two trees serialise to the same JSON text?  (same_tree + key order)"""
    if isinstance(a, dict):
        if not isinstance(b, dict) or list(a.keys()) != list(b.keys()):
            return False
        for k in a:
            if not same_bytes(a[k], b[k]):
                return False
        return True
    if isinstance(a, list):
        if not isinstance(b, list) or len(a) != len(b):
            return False
        for x, y in zip(a, b):
            if not same_bytes(x, y):
                return False
        return True
    return same_tree(a, b)


def copy_tree(t):
    if isinstance(t, dict):
        return {k: copy_tree(v) for k, v in t.items()}
    if isinstance(t, list):
        return [copy_tree(v) for v in t]
    return t


def tree_size(t):
    """Monotone stand-in for the encoded length (token count)."""
    if isinstance(t, dict):
        n = 2
        for k, v in t.items():
            n += 3 + len(k) + tree_size(v)
        return n
    if isinstance(t, list):
        n = 2
        for v in t:
            n += 2 + tree_size(v)
        return n
    return 1


class JText:
    """What ``json.dumps`` returns in model mode."""

    def __init__(self, tree):
        self.tree = tree

    def encode(self, *a, **k):
        return Blob(self.tree)

    def __len__(self):
        return tree_size(self.tree)

    def __eq__(self, other):
        return isinstance(other, JText) and same_bytes(self.tree, other.tree)

    def __ne__(self, other):
        return not self.__eq__(other)

    __hash__ = None


class Blob:
    """What ``.encode()`` of a JText returns; the content of model files."""

    def __init__(self, tree, corrupt=False, pad=0):
        self.tree = tree
        self.corrupt = corrupt
        self.pad = pad  # extra bytes of a foreign formatting (indentation, trailing newline): same data, other size

    def decode(self, *a, **k):
        if self.corrupt:
            c = JText(None)
            c.corrupt = True
            return c
        return JText(self.tree)

    def __len__(self):
        return 0 if self.corrupt and self.tree is None else tree_size(self.tree) + self.pad

    def __eq__(self, other):
        return (
            isinstance(other, Blob)
            and self.corrupt == other.corrupt
            and self.pad == getattr(other, "pad", 0)
            and same_bytes(self.tree, other.tree)
        )

    def __ne__(self, other):
        return not self.__eq__(other)

    __hash__ = None

    def __repr__(self):
        return f"Blob({self.tree!r}{', corrupt' if self.corrupt else ''})"


class CodecModel:
    """Structural stand-in for the ``json`` module (dumps/loads/JSONDecodeError)."""

    JSONDecodeError = _real_json.JSONDecodeError
    JSONEncoder = _real_json.JSONEncoder

    def __init__(self, env):
        self.env = env

    def _to_tree(self, obj, enc, depth=0):
        if depth > 64:
            raise ValueError("Circular reference detected")
        if obj is None or isinstance(obj, (bool, int, float, str)):
            return obj
        if isinstance(obj, dict):
            out = {}
            for k, v in obj.items():
                if isinstance(k, str):
                    kk = k
                elif k is None:
                    kk = "null"
                elif isinstance(k, bool):
                    kk = "true" if k else "false"
                elif isinstance(k, (int, float)):
                    kk = _real_json.dumps(k)
                else:
                    raise TypeError(
                        "keys must be str, int, float, bool or None, "
                        f"not {type(k).__name__}"
                    )
                out[kk] = self._to_tree(v, enc, depth + 1)
            return out
        if isinstance(obj, (list, tuple)):
            return [self._to_tree(v, enc, depth + 1) for v in obj]
        if enc is None:
            raise TypeError(
                f"Object of type {type(obj).__name__} is not JSON serializable"
            )
        return self._to_tree(enc.default(obj), enc, depth + 1)

    def dumps(self, obj, cls=None, **kw):
        self.env.codec_calls += 1
        if self.env.dumps_fault_at is not None and self.env.codec_calls - 1 == self.env.dumps_fault_at:
            raise TypeError("injected: not JSON serializable")
        enc = cls() if cls is not None else None
        return JText(self._to_tree(obj, enc))

    def loads(self, s, **kw):
        if isinstance(s, (Blob, JText)):
            if getattr(s, "corrupt", False):
                raise _real_json.JSONDecodeError("model: corrupt document", "", 0)
            return copy_tree(s.tree)
        return _real_json.loads(s, **kw)

    def dump(self, obj, fp, cls=None, **kw):
        fp.write(self.dumps(obj, cls=cls, **kw))

    def load(self, fp, **kw):
        return self.loads(fp.read(), **kw)


class RealJson:
    """Real json with an injectable serialisation failure (replay of codec faults)."""

    JSONDecodeError = _real_json.JSONDecodeError
    JSONEncoder = _real_json.JSONEncoder

    def __init__(self, env):
        self.env = env

    def _fault(self):
        self.env.codec_calls += 1
        if self.env.dumps_fault_at is not None and self.env.codec_calls - 1 == self.env.dumps_fault_at:
            raise TypeError("injected: not JSON serializable")

    def dumps(self, obj, **kw):
        self._fault()
        return _real_json.dumps(obj, **kw)

    def dump(self, obj, fp, **kw):
        self._fault()
        return fp.write(_real_json.dumps(obj, **kw))

    def loads(self, s, **kw):
        return _real_json.loads(s, **kw)

    def load(self, fp, **kw):
        return _real_json.loads(fp.read(), **kw)


class _Digest:
    def __init__(self):
        self.parts = []

    def update(self, blob):
        self.parts.append(blob)

    def hexdigest(self):
        return _DigestValue(list(self.parts))

    digest = hexdigest


class _DigestValue:
    def __init__(self, parts):
        self.parts = parts

    def __eq__(self, other):
        if not isinstance(other, _DigestValue) or len(other.parts) != len(self.parts):
            return False
        for a, b in zip(self.parts, other.parts):
            if not (a == b):
                return False
        return True

    def __ne__(self, other):
        return not self.__eq__(other)

    __hash__ = None


class HashlibModel:
    """md5 with digest == canonical content (equal iff contents equal)."""

    def md5(self, data=None, **kw):
        d = _Digest()
        if data is not None:
            d.update(data)
        return d

    sha1 = sha256 = md5


class UuidModel:
    def __init__(self):
        self.n = 0

    def uuid4(self):
        self.n += 1
        return f"tmp{self.n}"


# ----------------------------------------------------------------------------------
# lock model
# ----------------------------------------------------------------------------------


class LockModel:
    """Single-threaded record of an RLock: owner count, never blocks."""

    all_locks = []

    def __init__(self):
        self.count = 0
        self.max_count = 0
        self.acquires = 0
        LockModel.all_locks.append(self)

    def acquire(self, blocking=True, timeout=-1):
        self.count += 1
        self.acquires += 1
        return True

    def release(self):
        if self.count <= 0:
            raise RuntimeError("cannot release un-acquired lock")
        self.count -= 1

    def __enter__(self):
        self.acquire()
        return True

    def __exit__(self, *a):
        self.release()

    def _is_owned(self):
        return self.count > 0

    def locked(self):
        return self.count > 0


# ----------------------------------------------------------------------------------
# file-system model
# ----------------------------------------------------------------------------------


class _StatResult:
    def __init__(self, size, mtime, ino):
        self.st_size = size
        self.st_mtime_ns = mtime
        self.st_mtime = mtime / 1e9
        self.st_ino = ino
        self.st_mode = 0o100644


class _File:
    __slots__ = ("content", "mtime", "ino")

    def __init__(self, content, mtime, ino):
        self.content = content
        self.mtime = mtime
        self.ino = ino


EMPTY = Blob(None, corrupt=True)


class _Reader:
    def __init__(self, fs, name):
        self.fs = fs
        self.name = name

    def read(self, *a):
        self.fs._op("read", self.name)
        return self.fs.files[self.name].content

    def close(self):
        pass

    def __enter__(self):
        return self

    def __exit__(self, *a):
        return False


class _Writer:
    """Buffered writer: what write() was given reaches the file object (the inode the
    writer opened, whatever its name is by then) at flush()/close().  A crash before
    that leaves the inode empty (or, with crash_partial, holding a strict prefix)."""

    def __init__(self, fs, name, fobj):
        self.fs = fs
        self.name = name
        self.fobj = fobj
        self.pending = None
        self.closed = False

    def write(self, blob):
        fs = self.fs
        fs._effect("write", self.name, partial_target=(self.fobj, blob))
        self.pending = blob
        fs.write_count += 1
        return len(blob) if hasattr(blob, "__len__") else 0

    def _land(self):
        if self.pending is not None:
            self.fobj.content = self.pending
            self.fobj.mtime = self.fs._tick()
            self.pending = None

    def flush(self):
        self.fs._effect("flush", self.name, partial_target=(self.fobj, self.pending) if self.pending is not None else None)
        self._land()

    def fileno(self):
        return 3

    def close(self):
        if self.closed:
            return
        self.fs._effect("close", self.name, partial_target=(self.fobj, self.pending) if self.pending is not None else None)
        self._land()
        self.closed = True

    def __enter__(self):
        return self

    def __exit__(self, *a):
        if a and a[0] is not None and issubclass(a[0], BaseException) and not issubclass(a[0], Exception):
            return False
        self.close()
        return False


class FSModel:
    """POSIX-like file store with numbered effects.

    Every state-changing call is an *effect* (open-for-write = create/truncate,
    write, close, replace, remove).  ``crash_at == k`` raises ``Crash`` instead of
    performing effect number k (for a write, ``crash_partial`` first lands a strict
    prefix).  ``fault_at == k`` makes operation number k (reads and stats included)
    raise ``OSError(EIO)``.
    """

    def __init__(self):
        self.files = {}
        self.clock = 1000
        self.ino = 10
        self.effects = 0
        self.ops = 0
        self.write_count = 0
        self.log = []
        self.crash_at = None
        self.crash_partial = False
        self.fault_at = None

    def _tick(self):
        self.clock += 1
        return self.clock

    def _new_ino(self):
        self.ino += 1
        return self.ino

    def _op(self, kind, name):
        k = self.ops
        self.ops += 1
        if self.fault_at is not None and k == self.fault_at:
            self.log.append(("fault", kind, name))
            raise OSError(errno.EIO, "injected I/O error", name)
        fw = getattr(self, "fault_write_of", None)
        if fw and kind in ("open_w", "replace") and _real_os.path.basename(str(name)).split("_", 2)[-1 if _real_os.path.basename(str(name)).startswith("._") else 0].endswith(fw):
            # one-shot: the next write to this file fails
            self.fault_write_of = None
            self.log.append(("fault", kind, name))
            raise OSError(errno.EIO, "injected I/O error (write)", name)

    def _effect(self, kind, name, partial_target=None):
        self._op(kind, name)
        k = self.effects
        self.effects += 1
        if self.crash_at is not None and k == self.crash_at:
            if partial_target is not None and self.crash_partial:
                partial_target[0].content = Blob(getattr(partial_target[1], "tree", None), corrupt=True)
            self.log.append(("crash", kind, name))
            raise Crash(kind, name)
        self.log.append((kind, name))

    # --- API used by the library -------------------------------------------------
    def open(self, name, mode="r", *a, **k):
        if "r" in mode and "+" not in mode:
            self._op("open_r", name)
            if name not in self.files:
                raise FileNotFoundError(errno.ENOENT, "No such file or directory", name)
            return _Reader(self, name)
        if "w" in mode:
            self._effect("open_w", name)
            f = self.files.get(name)
            if f is None:
                f = self.files[name] = _File(EMPTY, self._tick(), self._new_ino())
            else:
                f.content = EMPTY
                f.mtime = self._tick()
            return _Writer(self, name, f)
        raise UnmodelledCall(f"open mode {mode!r}")

    def replace(self, src, dst):
        self._effect("replace", dst)
        if src not in self.files:
            raise FileNotFoundError(errno.ENOENT, "No such file or directory", src)
        self.files[dst] = self.files.pop(src)
        self.write_count += 1

    def remove(self, name):
        self._effect("remove", name)
        if name not in self.files:
            raise FileNotFoundError(errno.ENOENT, "No such file or directory", name)
        del self.files[name]

    def stat(self, name):
        self._op("stat", name)
        f = self.files.get(name)
        if f is None:
            raise FileNotFoundError(errno.ENOENT, "No such file or directory", name)
        return _StatResult(len(f.content), f.mtime, f.ino)

    def exists(self, name):
        return name in self.files

    # --- API used by harnesses ("outside writer", independent reader) -----------
    def put(self, name, content):
        f = self.files.get(name)
        if f is None:
            self.files[name] = _File(content, self._tick(), self._new_ino())
        else:
            f.content = content
            f.mtime = self._tick()

    def get(self, name):
        f = self.files.get(name)
        return MISSING if f is None else f.content


class _PathModel:
    def __init__(self, fs):
        self._fs = fs
        p = _real_os.path
        for n in ("split", "join", "basename", "dirname", "splitext", "normpath", "abspath", "isabs", "sep", "expanduser", "realpath", "relpath", "commonpath"):
            setattr(self, n, getattr(p, n))

    def exists(self, name):
        return self._fs.exists(name)

    isfile = exists
    lexists = exists

    def isdir(self, name):
        return True

    def getsize(self, name):
        return self._fs.stat(name).st_size

    def getmtime(self, name):
        return self._fs.stat(name).st_mtime


class OSModel:
    """Stand-in for the ``os`` module inside the library."""

    def __init__(self, fs):
        self._fs = fs
        self.path = _PathModel(fs)
        self.sep = _real_os.sep
        self.name = _real_os.name
        self.error = OSError
        self.O_RDONLY = _real_os.O_RDONLY

    def replace(self, src, dst):
        return self._fs.replace(src, dst)

    rename = replace

    def remove(self, name):
        return self._fs.remove(name)

    unlink = remove

    def stat(self, name):
        return self._fs.stat(name)

    lstat = stat

    def fsync(self, fd):
        pass

    def getpid(self):
        return 4242

    def makedirs(self, *a, **k):
        pass

    def fspath(self, p):
        return p

    def __getattr__(self, name):
        raise UnmodelledCall(f"os.{name}")


# ----------------------------------------------------------------------------------
# real-mode pass-throughs (counting)
# ----------------------------------------------------------------------------------


class RealFS:
    """Counting pass-through to a real temp dir; same observer API as FSModel."""

    def __init__(self, root):
        self.root = root
        self.effects = 0
        self.ops = 0
        self.write_count = 0
        self.log = []
        self.crash_at = None
        self.crash_partial = False
        self.fault_at = None

    def _op(self, kind, name):
        k = self.ops
        self.ops += 1
        if self.fault_at is not None and k == self.fault_at:
            raise OSError(errno.EIO, "injected I/O error", name)
        fw = getattr(self, "fault_write_of", None)
        if fw and kind in ("open_w", "replace") and _real_os.path.basename(str(name)).split("_", 2)[-1 if _real_os.path.basename(str(name)).startswith("._") else 0].endswith(fw):
            self.fault_write_of = None
            raise OSError(errno.EIO, "injected I/O error (write)", name)

    def _effect(self, kind, name, partial=None):
        self._op(kind, name)
        k = self.effects
        self.effects += 1
        if self.crash_at is not None and k == self.crash_at:
            if partial is not None and self.crash_partial:
                fobj, data = partial
                if len(data) > 1:
                    fobj.write(data[: len(data) // 2])
                    fobj.flush()
            self.log.append(("crash", kind, name))
            raise Crash(kind, name)
        self.log.append((kind, name))

    def open(self, name, mode="r", *a, **k):
        fs = self
        if "w" in mode:
            self._effect("open_w", name)
            real = builtins.open(name, mode, *a, **k)

            class W:
                pending = None

                def write(self_, data):
                    fs._effect("write", name, partial=(real, data))
                    fs.write_count += 1
                    self_.pending = data if self_.pending is None else self_.pending + data
                    return len(data)

                def _land(self_):
                    if self_.pending:
                        real.write(self_.pending)
                        self_.pending = None
                    real.flush()

                def flush(self_):
                    fs._effect("flush", name, partial=(real, self_.pending) if self_.pending else None)
                    self_._land()

                def fileno(self_):
                    return real.fileno()

                def close(self_):
                    if real.closed:
                        return
                    fs._effect("close", name, partial=(real, self_.pending) if self_.pending else None)
                    self_._land()
                    real.close()

                def __enter__(self_):
                    return self_

                def __exit__(self_, *ex):
                    if ex and ex[0] is not None and not issubclass(ex[0], Exception):
                        real.close()
                        return False
                    self_.close()
                    return False

            return W()
        self._op("open_r", name)
        real = builtins.open(name, mode, *a, **k)

        class R:
            def read(self_, *aa):
                fs._op("read", name)
                return real.read(*aa)

            def close(self_):
                real.close()

            def __enter__(self_):
                return self_

            def __exit__(self_, *ex):
                real.close()
                return False

        return R()

    def replace(self, src, dst):
        self._effect("replace", dst)
        self.write_count += 1
        return _real_os.replace(src, dst)

    def remove(self, name):
        self._effect("remove", name)
        return _real_os.remove(name)

    def stat(self, name):
        self._op("stat", name)
        return _real_os.stat(name)

    def exists(self, name):
        return _real_os.path.exists(name)

    def put(self, name, content):
        # outside writer: guarantee a metadata change (the library's own detection limit)
        old = None
        try:
            old = _real_os.stat(name)
        except OSError:
            pass
        data = content if isinstance(content, bytes) else _real_json.dumps(content).encode()
        with builtins.open(name, "wb") as f:
            f.write(data)
        if old is not None:
            new = _real_os.stat(name)
            if (new.st_size, new.st_mtime_ns) == (old.st_size, old.st_mtime_ns):
                _real_os.utime(name, ns=(new.st_atime_ns, old.st_mtime_ns + 1000))

    def get(self, name):
        try:
            with builtins.open(name, "rb") as f:
                return f.read()
        except FileNotFoundError:
            return MISSING


class _RealOS:
    def __init__(self, fs):
        self._fs = fs
        self.path = _real_os.path

    def replace(self, src, dst):
        return self._fs.replace(src, dst)

    rename = replace

    def remove(self, name):
        return self._fs.remove(name)

    unlink = remove

    def stat(self, name):
        return self._fs.stat(name)

    def __getattr__(self, name):
        return getattr(_real_os, name)


# ----------------------------------------------------------------------------------
# fake external stores
# ----------------------------------------------------------------------------------


class FakeRedis:
    def __init__(self, env):
        self.env = env
        self.store = {}
        self.sets = 0

    def get(self, key):
        return self.store.get(key)

    def set(self, key, value):
        self.sets += 1
        self.env.store_writes += 1
        self.store[key] = value

    def __getitem__(self, key):
        return self.store[key]

    def __setitem__(self, key, value):
        self.set(key, value)

    def delete(self, key):
        self.store.pop(key, None)

    def keys(self):
        return list(self.store)

    def __contains__(self, key):
        return key in self.store


class _InvalidDocument(Exception):
    pass


class FakeBson:
    class errors:
        InvalidDocument = _InvalidDocument


def _bson_copy(v, top=False):
    from collections.abc import Mapping

    if v is None or isinstance(v, (bool, int, float, str)):
        return v
    if isinstance(v, Mapping):
        out = {}
        for k, x in v.items():
            if not isinstance(k, str):
                raise _InvalidDocument(f"documents must have only string keys, key was {k!r}")
            out[k] = _bson_copy(x)
        return out
    if isinstance(v, (list, tuple)):
        return [_bson_copy(x) for x in v]
    raise _InvalidDocument(f"cannot encode object: {v!r}, of type: {type(v)}")


class FakeMongoCollection:
    def __init__(self, env):
        self.env = env
        self.docs = []
        self.writes = 0

    def _match(self, doc, flt):
        return all(k in doc and doc[k] == v for k, v in flt.items())

    def find_one(self, flt=None):
        for d in self.docs:
            if self._match(d, flt or {}):
                return copy_tree(d)
        return None

    def replace_one(self, flt, doc, upsert=False):
        self.writes += 1
        self.env.store_writes += 1
        new = _bson_copy(doc, top=True)
        for i, d in enumerate(self.docs):
            if self._match(d, flt):
                self.docs[i] = new
                return
        if upsert:
            self.docs.append(new)


class _FakeDataset:
    def __init__(self, group, name, codec):
        self.group = group
        self.name = name
        self.codec = codec

    def __setitem__(self, idx, data):
        assert idx == 0
        self.group.env.store_writes += 1
        self.group.writes += 1
        self.group.data[self.name] = self.codec.encode(data)

    def __getitem__(self, idx):
        assert idx == 0
        return self.codec.decode(self.group.data[self.name])


class FakeZarrGroup:
    def __init__(self, env):
        self.env = env
        self.data = {}
        self.codecs = {}
        self.writes = 0

    def require_dataset(self, name, overwrite=False, shape=None, dtype=None, object_codec=None, **k):
        self.codecs[name] = object_codec
        if overwrite:
            self.data.pop(name, None)
        return _FakeDataset(self, name, object_codec)

    def __getitem__(self, name):
        if name not in self.data:
            raise KeyError(name)
        return _FakeDataset(self, name, self.codecs[name])

    def __contains__(self, name):
        return name in self.data


class FakeNumcodecs:
    def __init__(self, env):
        self._env = env

    def JSON(self, **kw):
        env = self._env

        class _J:
            def encode(self_, data):
                return env.json.dumps(data)

            def decode(self_, blob):
                return env.json.loads(blob)

        return _J()


# ----------------------------------------------------------------------------------
# the environment object
# ----------------------------------------------------------------------------------

LIB_MODULES = [
    "synced_collections.utils",
    "synced_collections.numpy_utils",
    "synced_collections.errors",
    "synced_collections.validators",
    "synced_collections.data_types.synced_collection",
    "synced_collections.data_types.synced_dict",
    "synced_collections.data_types.synced_list",
    "synced_collections.data_types.attr_dict",
    "synced_collections.buffers.buffered_collection",
    "synced_collections.buffers.file_buffered_collection",
    "synced_collections.buffers.serialized_file_buffered_collection",
    "synced_collections.buffers.memory_buffered_collection",
    "synced_collections.backends.collection_json",
    "synced_collections.backends.collection_redis",
    "synced_collections.backends.collection_mongodb",
    "synced_collections.backends.collection_zarr",
]


def lib_modules():
    import synced_collections  # noqa

    mods = []
    for n in LIB_MODULES:
        try:
            mods.append(importlib.import_module(n))
        except Exception as e:  # a mutated tree may fail here: harness error
            raise HarnessError(f"cannot import {n}: {e!r}")
    # also any further synced_collections.* module a changed tree may have added
    for n, m in list(sys.modules.items()):
        if n.startswith("synced_collections.") and m is not None and m not in mods:
            mods.append(m)
    return mods


def all_lib_classes():
    from synced_collections.data_types.synced_collection import SyncedCollection

    seen = []
    stack = [SyncedCollection]
    while stack:
        c = stack.pop()
        if c in seen:
            continue
        seen.append(c)
        stack.extend(c.__subclasses__())
    return seen


def _is_lockish(v):
    return type(v).__name__ in ("RLock", "lock", "LockModel", "_RLock") or isinstance(v, LockModel)


class Env:
    """One environment per path.  ``Env.install(mode)`` patches the library; every
    harness path starts with ``env.reset()``."""

    def __init__(self, mode="model"):
        assert mode in ("model", "real")
        self.mode = mode
        self.installed = False
        self._class_snap = None
        self._orig = []
        self._tmp = None
        self.fs = None
        self.codec_calls = 0
        self.dumps_fault_at = None
        self.store_writes = 0
        self.json = None

    # -- patching -------------------------------------------------------------
    def _set(self, mod, name, value):
        self._orig.append((mod, name, mod.__dict__.get(name, MISSING)))
        setattr(mod, name, value)

    def install(self):
        if self.installed:
            return
        mods = lib_modules()
        self.mods = mods
        if self._class_snap is None:
            self._snapshot_classes()
        self._osproxy = _Forward()
        self._openproxy = lambda *a, **k: self.fs.open(*a, **k)
        self._uuidproxy = _Forward()
        self._jsonproxy = _Forward()
        self._hashproxy = _Forward()
        for m in mods:
            d = m.__dict__
            if d.get("os") is _real_os:
                self._set(m, "os", self._osproxy)
            if "open" not in d and ("os" in d or "json" in d):
                self._set(m, "open", self._openproxy)
            if d.get("uuid") is _real_uuid:
                self._set(m, "uuid", self._uuidproxy)
            if d.get("json") is _real_json:
                self._set(m, "json", self._jsonproxy)
            if self.mode == "model":
                if d.get("hashlib") is _real_hashlib:
                    self._set(m, "hashlib", self._hashproxy)
                if d.get("RLock") is threading.RLock:
                    self._set(m, "RLock", LockModel)
                if d.get("Lock") is threading.Lock:
                    self._set(m, "Lock", LockModel)
                if d.get("threading") is threading:
                    self._set(m, "threading", _ThreadingModel())
                if d.get("JSONEncoder") is _real_json.JSONEncoder:
                    pass
        import synced_collections.backends.collection_mongodb as cm
        import synced_collections.backends.collection_zarr as cz

        self._set(cm, "MONGO", True)
        self._set(cm, "bson", FakeBson)
        self._set(cz, "ZARR", True)
        self._set(cz, "numcodecs", _Forward())
        self._numcodecs_proxy = cz.numcodecs
        self.installed = True
        self.reset()

    def uninstall(self):
        for mod, name, val in reversed(self._orig):
            if val is MISSING:
                try:
                    delattr(mod, name)
                except AttributeError:
                    pass
            else:
                setattr(mod, name, val)
        self._orig = []
        self.installed = False
        self._restore_classes(real_locks=True)
        if self._tmp:
            shutil.rmtree(self._tmp, ignore_errors=True)
            self._tmp = None

    # -- class-level state ----------------------------------------------------
    def _snapshot_classes(self):
        snap = {}
        for c in all_lib_classes():
            if not c.__module__.startswith("synced_collections"):
                continue
            entry = {}
            for k, v in c.__dict__.items():
                if k.startswith("__") or k in ("_abc_impl", "registry", "_all_validators", "_validators"):
                    continue
                if isinstance(v, (dict, list, set)):
                    entry[k] = ("copy", copy.copy(v))
                elif isinstance(v, (int, float, bool)) and not callable(v):
                    entry[k] = ("val", v)
                elif _is_lockish(v):
                    entry[k] = ("lock", None)
                elif type(v).__module__.startswith("synced_collections") and hasattr(v, "__dict__") and not isinstance(v, type):
                    entry[k] = ("obj", (v, {a: (copy.copy(b) if isinstance(b, (list, dict, set)) else b) for a, b in v.__dict__.items()}))
            snap[c] = entry
        self._class_names = {c: set(c.__dict__) for c in snap}
        self._class_snap = snap

    def _restore_classes(self, real_locks=False):
        # drop class attributes created since the snapshot (e.g. a per-class
        # _BUFFER_CAPACITY written by set_buffer_capacity)
        for c, names in self._class_names.items():
            for k in list(c.__dict__):
                if k not in names and not k.startswith("__") and k not in ("_abc_impl",):
                    v = c.__dict__[k]
                    if isinstance(v, (int, float, bool, dict, list, set)) or v is None:
                        try:
                            delattr(c, k)
                        except Exception:
                            pass
        for c, entry in self._class_snap.items():
            want = entry.get("_threading_support_is_active")
            if want is not None and c.__dict__.get("_threading_support_is_active") != want[1]:
                try:
                    (c.enable_multithreading if want[1] else c.disable_multithreading)()
                except Exception:
                    pass
            for k, (kind, v) in entry.items():
                if kind == "copy":
                    setattr(c, k, copy.copy(v))
                elif kind == "val":
                    setattr(c, k, v)
                elif kind == "lock":
                    setattr(c, k, threading.RLock() if (real_locks or self.mode == "real") else LockModel())
                elif kind == "obj":
                    obj, d = v
                    obj.__dict__.clear()
                    obj.__dict__.update({a: (copy.copy(b) if isinstance(b, (list, dict, set)) else b) for a, b in d.items()})
                    if c.__dict__.get(k) is not obj:
                        setattr(c, k, obj)

    def _clear_resolver_caches(self):
        from synced_collections.utils import AbstractTypeResolver

        for m in self.mods:
            for v in list(m.__dict__.values()):
                if isinstance(v, AbstractTypeResolver):
                    v.type_map = {}

    # -- per-path reset -----------------------------------------------------------
    def reset(self):
        """Fresh environment + class-level library state.  Runs natively (outside
        CrossHair's tracer): nothing here touches a symbolic value."""
        try:
            from crosshair.tracers import NoTracing, is_tracing

            if is_tracing():
                with NoTracing():
                    return self._reset()
        except ImportError:
            pass
        return self._reset()

    def _reset(self):
        LockModel.all_locks = []
        self._restore_classes()
        self._clear_resolver_caches()
        self.codec_calls = 0
        self.dumps_fault_at = None
        self.store_writes = 0
        if self.mode == "model":
            self.fs = FSModel()
            self.json = CodecModel(self)
            self._jsonproxy._target = self.json
            self._hashproxy._target = HashlibModel()
            self._osproxy._target = OSModel(self.fs)
            self.dir = "/d"
        else:
            if self._tmp:
                shutil.rmtree(self._tmp, ignore_errors=True)
            self._tmp = tempfile.mkdtemp(prefix="vf_real_")
            self.fs = RealFS(self._tmp)
            self.json = RealJson(self)
            self._jsonproxy._target = self.json
            self._osproxy._target = _RealOS(self.fs)
            self.dir = self._tmp
        self._uuidproxy._target = UuidModel() if self.mode == "model" else _real_uuid
        self._numcodecs_proxy._target = FakeNumcodecs(self)
        self.redis = FakeRedis(self)
        self.mongo = FakeMongoCollection(self)
        self.zarr = FakeZarrGroup(self)
        return self

    # -- harness-side helpers -----------------------------------------------------
    def path(self, name):
        return _real_os.path.join(self.dir, name)

    def write_doc(self, name, tree, foreign=False):
        """Outside writer: put a JSON document (plain tree) into file `name`.  `foreign`:
        written by another tool (indented, newline-terminated) -- same data, other bytes."""
        p = self.path(name)
        if self.mode == "model":
            self.fs.put(p, Blob(copy_tree(tree), pad=7 if foreign else 0))
        elif foreign:
            self.fs.put(p, (_real_json.dumps(tree, indent=2) + "\n").encode())
        else:
            self.fs.put(p, _real_json.dumps(tree).encode())

    def write_corrupt(self, name):
        p = self.path(name)
        if self.mode == "model":
            self.fs.put(p, Blob(None, corrupt=True))
        else:
            self.fs.put(p, b'{"a": ')

    def read_doc(self, name):
        """Independent reader: MISSING, CORRUPT or the plain tree."""
        c = self.fs.get(self.path(name))
        if c is MISSING:
            return MISSING
        if self.mode == "model":
            if not isinstance(c, (Blob, JText)):
                return CORRUPT
            return CORRUPT if getattr(c, "corrupt", False) else copy_tree(c.tree)
        try:
            return _real_json.loads(c)
        except ValueError:
            return CORRUPT

    def decode(self, blob):
        """Decode a stored value (fake Redis) independently of the library."""
        if blob is None:
            return MISSING
        if isinstance(blob, (Blob, JText)):
            return copy_tree(blob.tree)
        return _real_json.loads(blob)

    def encode(self, tree):
        if self.mode == "model":
            return Blob(copy_tree(tree))
        return _real_json.dumps(tree).encode()

    def listdir(self):
        if self.mode == "model":
            return sorted(_real_os.path.basename(p) for p in self.fs.files)
        return sorted(_real_os.listdir(self._tmp))

    def file_token(self, name):
        """Identity of a file's state: changes whenever it is (re)written."""
        p = self.path(name)
        if self.mode == "model":
            f = self.fs.files.get(p)
            return MISSING if f is None else (f.ino, f.mtime)
        try:
            st = _real_os.stat(p)
        except FileNotFoundError:
            return MISSING
        with builtins.open(p, "rb") as fh:
            data = fh.read()
        return (st.st_ino, st.st_mtime_ns, data)

    def locks_held(self):
        """Names of model locks still held (model mode only)."""
        return [l for l in LockModel.all_locks if l.count != 0]


class _Forward:
    """Module-like proxy whose target is swapped at every reset."""

    _target = None

    def __getattr__(self, name):
        return getattr(self._target, name)


class _ThreadingModel:
    RLock = LockModel
    Lock = LockModel

    def __getattr__(self, name):
        return getattr(threading, name)


ENV = None


def get_env(mode=None):
    global ENV
    if ENV is None or (mode is not None and ENV.mode != mode):
        if ENV is not None:
            ENV.uninstall()
        ENV = Env(mode or _real_os.environ.get("VF_MODE", "model"))
        ENV.install()
    return ENV
