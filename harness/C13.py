"""C13 Buffered collections stay consistent under concurrent threads.  Engine C.

Programs inside a backend-wide buffered context with capacity {default, 0 (every save
forces a flush in the middle of the operation)}, both strategies, one mutator per
thread on distinct files / two objects on the same file / the same object."""
from vf import hlib, ops, conc_run

PID = "C13"
ENGINE = "C"

MUT = {"dict": ["setitem_new", "setitem_replace", "delitem", "update_two_new", "setdefault_new", "reset", "clear", "pop"],
       "list": ["append", "extend", "insert", "setitem", "delitem", "reset", "clear", "pop"]}


PRIVATE_READS = {"dict": ["getitem", "call", "len"], "list": ["getitem", "call", "len"]}
PRIVATE_READS_T = {"dict": ["getitem", "get", "call", "len", "iter", "contains", "keys", "eq_plain"], "list": ["getitem", "call", "len", "iter", "contains", "index", "getslice"]}


def specs(tier):
    out = []
    fams = ["BufferedJSON", "MemoryBufferedJSON"] + (["BufferedJSONAttr", "MemoryBufferedJSONAttr"] if tier == "thorough" else [])
    caps = [None, 0] + ([1] if tier == "thorough" else [])
    for fam in fams:
        for which in ("dict", "list"):
            # thorough: every table mutator for the plain families at default capacity, the quick table elsewhere
            for cap in caps:
                t = [o.name for o in ops.mutators(which)] if (tier == "thorough" and cap is None and not fam.endswith("Attr")) else MUT[which]
                for rel in ("two-files", "two", "same"):
                    for i, a in enumerate(t):
                        for b in t[i:]:
                            out.append({"fam": fam, "which": which, "relation": rel, "op1": a, "op2": b, "ctx": ["backend", cap], "variants": False})
                # reads through an object no other thread is using (its own object on the
                # same file, or on another file) next to a mutator on the other object
                for rel in ("two", "two-files"):
                    for r in PRIVATE_READS[which] if tier == "quick" else PRIVATE_READS_T[which]:
                        for b in t:
                            out.append({"fam": fam, "which": which, "relation": rel, "op1": r, "op2": b, "ctx": ["backend", cap], "variants": False, "ignore_values": [1]})
        # a buffer that is exactly full when the threads start ("tight"): the second thread's
        # object has a buffered modification, anything entering the buffer next forces a flush
        for which in ("dict", "list"):
            for rel in ("two-files", "two"):
                for b in MUT[which]:
                    for a in PRIVATE_READS[which] + MUT[which][:4]:
                        out.append({"fam": fam, "which": which, "relation": rel, "op1": a, "op2": b, "ctx": ["backend", "tight"], "variants": False, **({"ignore_values": [1]} if a in PRIVATE_READS[which] else {})})
    return out


def fingerprint(r):
    s = r["spec"]
    v = r.get("violation", {})
    o = v.get("outcome") or {}
    return {"kind": v.get("kind"), "relation": s["relation"], "ops": sorted({s["op1"], s["op2"]}), "family": s["fam"], "capacity": s["ctx"][1], "buffered": True,
            "writer": [x for x in (s["op1"], s["op2"]) if x in ("clear", "reset")][:1] or None, "exit": o.get("exit"), "size": o.get("size"),
            "private_read": bool(s.get("ignore_values")), "reader_raised": (o.get("r1") or [None, None])[1] if (o.get("r1") or [None])[0] == "exc" and s.get("ignore_values") else None}


def main(tier, seed):
    import harness.C13 as me

    return conc_run.run(PID, tier, seed, specs(tier), me, fingerprint)


BOUNDS = {"quick": {"classes": "BufferedJSON / MemoryBufferedJSON dict and list", "capacities": [None, 0], "threads": 2, "operations_per_thread": 1, "mutators": MUT, "relations": ["two-files", "two", "same"]},
          "thorough": {"classes": "+ attribute-access variants", "capacities": [None, 0, 1], "mutators": "all table entries for the plain families at default capacity, the quick table elsewhere"}}
ASSUMPTIONS = [
    "outcome compared with the two serial orders: per-thread results, content of every file after the context exits, exception of the exit, reported buffer size, final reads",
    "conflict-serializability of the recorded events is a sufficient condition; sat witnesses count only after replay on real threads (a hang counts as a violation)",
]
OUTSIDE = ["more than 2 threads / 1 operation per thread", "capacities other than default/0/1", "reads on shared objects (C14)"]
BOUNDS["quick"]["private_reads"] = PRIVATE_READS
BOUNDS["thorough"]["private_reads"] = PRIVATE_READS_T
