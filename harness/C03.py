"""C03 Operations refine built-in dict/list: same results, same errors, same content.

Engine A, inductive single step from an arbitrary loaded state.
* `refine`  -- every mutator and reader of the MutableMapping/MutableSequence surface
  (mixins included) with symbolic indices, on the root and on a nested child.
* `slices`  -- extended slices get/set/del with symbolic start/stop/step in [-3,3].
* `compare` -- ==, !=, <, <=, >, >= with plain, same-class and other-class operands.
* `prog2`   -- (thorough) two-step programs, results compared at both steps."""
import operator

from vf import hlib, ops
from vf.hlib import FAM, Leaves, MISSING, case, fail, fill, finish, get_env, pick, plain, eq_plain, same_tree, is_plain, at, copy_tree, known

PID = "C03"
IDX = [-3, -2, -1, 0, 1, 2, 3]
WHICH = ["dict", "list"]

VSHAPES = [hlib.D1[0], hlib.D1[3], hlib.D1[6], ("(x,)", (hlib.SLOT,))]


def fams():
    if hlib.TIER == "thorough":
        return [FAM["JSON"], FAM["MemoryBufferedJSONAttr"], FAM["Redis"]]
    return [FAM["JSON"]]


def build(which, depth, tkind, x, y, z):
    T = {"p": x, "s": y} if tkind == "dict" else [x, y, z][: (3 if hlib.TIER == "thorough" else 2)]
    if depth == 0:
        return T, ()
    if which == "dict":
        return {"a": T, "b": 9}, ("a",)
    return [T, 9], (0,)


def _sorted_if_keys(op, r):
    # key order is documented as unspecified after bulk updates: order-insensitive compare
    if op.name in ("iter", "keys") and isinstance(r, list):
        return sorted(r)
    if op.name == "items":
        return sorted(r, key=lambda kv: kv[0])
    return r


def _res_eq(op, a, b):
    if op.name == "values" and isinstance(a, list) and isinstance(b, list):
        # multiset comparison without ordering or formatting symbolic leaves
        if len(a) != len(b):
            return False
        rest = list(b)
        for x in a:
            hit = -1
            for n, y in enumerate(rest):
                if eq_plain(x, y):
                    hit = n
                    break
            if hit < 0:
                return False
            del rest[hit]
        return True
    return eq_plain(a, b)


def one_op(env, fam, which, depth, tkind, op, a_lib, a_ref, x, y, z):
    """Run op on the library object and on the reference; return '' or a failure text
    producer.  Also checks that an operation that raises changes nothing."""
    doc, path = build(which, depth, tkind, x, y, z)
    ref = copy_tree(doc)
    fam.write(env, "r", doc)
    root = fam.make(env, which, "r")
    target = root
    for k in path:
        target = target[k]
    before_tok = fam.writes(env)
    try:
        r_lib = ("ok", op.fn(target, a_lib))
    except Exception as e:
        r_lib = ("exc", e)
    after_tok = fam.writes(env)
    tref = at(ref, path)
    if op.name == "popitem" and r_lib[0] == "ok":
        # which item is popped is order-dependent: pop the same key from the reference
        kk = r_lib[1][0]
        try:
            r_ref = ("ok", (kk, tref.pop(kk)))
        except Exception as e:
            r_ref = ("exc", e)
    else:
        try:
            r_ref = ("ok", op.ref(tref, a_ref))
        except Exception as e:
            r_ref = ("exc", e)
    if r_lib[0] != r_ref[0]:
        return lambda: f"{op.name}: library {r_lib!r}, built-in {r_ref!r}"
    if r_lib[0] == "exc":
        if not hlib.exc_class_ok(r_lib[1], r_ref[1]):
            return lambda: f"{op.name}: library raises {r_lib[1]!r}, built-in raises {r_ref[1]!r}"
    else:
        a, b = plain(r_lib[1]), plain(r_ref[1])
        if not op.mut:
            a, b = _sorted_if_keys(op, a), _sorted_if_keys(op, b)
        if op.name not in ("iadd",) and not _res_eq(op, a, b):
            return lambda: f"{op.name}: library returned {a!r}, built-in returned {b!r}"
    want = plain(ref)
    got = root()
    if not eq_plain(got, want):
        return lambda: f"content after {op.name}: {got!r}, built-in {want!r}"
    res = fam.read(env, "r")
    if res is MISSING or not eq_plain(res, want):
        return lambda: f"resource after {op.name}: {res!r}, built-in {want!r}"
    return None


def all_ops(kind):
    return ops.mutators(kind) + ops.readers(kind)


def refine(opi: int, vs: int, i: int, j: int, x: int, y: int, z: int, v1: int, v2: int) -> bool:
    """
    post: _
    """
    env = get_env().reset()
    # partition = (family, root kind, depth, target kind, op slice)
    F = fams()
    cells = [(f, w, d, t) for f in F for w in WHICH for d in (0, 1) for t in WHICH if d == 1 or t == w]
    f, which, depth, tkind = cells[hlib.PART % len(cells)]
    nsl = max(1, hlib.NPARTS // len(cells))
    sl = hlib.PART // len(cells)
    op = pick(all_ops(tkind)[sl::nsl], opi)
    if op is None:
        return finish(False, True)
    shape = pick(VSHAPES, vs) if op.v else VSHAPES[0]
    if shape is None:
        return finish(False, True)
    if op.concrete:
        x, y, z, v1, v2 = 1, 2, 3, 4, 5
    # indices are decided by the solver but concrete afterwards (a symbolic index into a
    # concrete list forks once per value anyway; symbolic slice arithmetic only adds paths)
    i = pick(IDX, i) if op.i else 0
    j = pick(IDX, j) if op.j else (i + 1 if i is not None else None)
    if i is None or j is None:
        return finish(False, True)
    if op.name.endswith("_plain"):
        # operand: the target's own content or a variation of it
        base = {"p": v1, "s": y} if tkind == "dict" else [v1, y]
        a_lib, a_ref = ops.A(v=base, i=i, j=j), ops.A(v=copy_tree(base), i=i, j=j)
        shape = ("content-like",)
    else:
        a_lib = ops.A(v=fill(shape[1], Leaves(v1, v2)), w=v2, i=i, j=j)
        a_ref = ops.A(v=fill(shape[1], Leaves(v1, v2)), w=v2, i=i, j=j)
    case(f.cls(which).__name__, f"depth{depth}", tkind, op.name, shape[0])
    bad = one_op(env, f, which, depth, tkind, op, a_lib, a_ref, x, y, z)
    if bad is not None:
        if known(PID, {"harness": "refine", "op": op.name}, (opi, vs, i, j, x, y, z, v1, v2)):
            return finish(True, True)
        return finish(True, fail(lambda: f"{f.cls(which).__name__} depth {depth} {tkind}: " + bad()))
    return finish(True, True)


def slices(opi: int, i: int, j: int, x: int, y: int, z: int, v1: int, v2: int) -> bool:
    """
    post: _
    """
    env = get_env().reset()
    k = (hlib.PART % 7) - 3  # step fixed by the partition: -3..3 (0 -> ValueError)
    depth = (hlib.PART // 7) % 2
    op = pick(ops.LIST_SLICE_OPS, opi)
    i = pick(IDX, i)
    j = pick(IDX, j)
    if op is None or i is None or j is None:
        return finish(False, True)
    f = FAM["JSON"]
    a_lib, a_ref = ops.A(v=v1, w=v2, i=i, j=j, k=k), ops.A(v=v1, w=v2, i=i, j=j, k=k)
    doc, path = ([x, y, z], ()) if depth == 0 else ({"a": [x, y, z], "b": 9}, ("a",))
    which = "list" if depth == 0 else "dict"
    ref = copy_tree(doc)
    f.write(env, "r", doc)
    root = f.make(env, which, "r")
    target = root
    for kk in path:
        target = target[kk]
    try:
        r_lib = ("ok", op.fn(target, a_lib))
    except Exception as e:
        r_lib = ("exc", e)
    try:
        r_ref = ("ok", op.ref(at(ref, path), a_ref))
    except Exception as e:
        r_ref = ("exc", e)
    case(op.name, f"step{k}", f"depth{depth}", r_lib[0])
    if r_lib[0] != r_ref[0]:
        return finish(True, fail(lambda: f"{op.name} [{i}:{j}:{k}] on {doc!r}: library {r_lib!r}, list {r_ref!r}"))
    if r_lib[0] == "exc":
        if not hlib.exc_class_ok(r_lib[1], r_ref[1]):
            return finish(True, fail(lambda: f"{op.name} [{i}:{j}:{k}]: {r_lib[1]!r} vs {r_ref[1]!r}"))
    elif not eq_plain(plain(r_lib[1]), plain(r_ref[1])):
        return finish(True, fail(lambda: f"{op.name} [{i}:{j}:{k}] on {doc!r}: returned {plain(r_lib[1])!r}, list gives {plain(r_ref[1])!r}"))
    got, want = root(), plain(ref)
    res = f.read(env, "r")
    if not eq_plain(got, want) or not eq_plain(res, want):
        return finish(True, fail(lambda: f"{op.name} [{i}:{j}:{k}] on {doc!r}: content {got!r} / resource {res!r}, list gives {want!r}"))
    return finish(True, True)


CMP = [("eq", operator.eq), ("ne", operator.ne), ("lt", operator.lt), ("le", operator.le), ("gt", operator.gt), ("ge", operator.ge)]
OPERANDS = ["plain", "same-class", "other-class", "nested-child"]


def compare(ci: int, n1: int, n2: int, x: int, y: int, v1: int, v2: int) -> bool:
    """
    pre: 0 <= n1 <= 2 and 0 <= n2 <= 2
    post: _
    """
    env = get_env().reset()
    okind = OPERANDS[hlib.PART % len(OPERANDS)]
    tkind = WHICH[(hlib.PART // len(OPERANDS)) % 2]
    cmp = pick(CMP, ci)
    n1 = pick([0, 1, 2], n1)
    n2 = pick([0, 1, 2], n2)
    if cmp is None or n1 is None or n2 is None or (tkind == "dict" and cmp[0] not in ("eq", "ne")):
        return finish(False, True)
    f = FAM["JSON"]
    if tkind == "list":
        left = [x, y][:n1]
        right = [v1, v2][:n2]
    else:
        left = {"p": x, "s": y} if n1 == 2 else ({"p": x} if n1 == 1 else {})
        right = {"p": v1, "s": v2} if n2 == 2 else ({"p": v1} if n2 == 1 else {})
    f.write(env, "r", left)
    lobj = f.make(env, tkind, "r")
    if okind == "plain":
        robj = copy_tree(right)
    elif okind == "same-class":
        f.write(env, "r2", right)
        robj = f.make(env, tkind, "r2")
    elif okind == "other-class":
        g = FAM["BufferedJSON"]
        g.write(env, "r2", right)
        robj = g.make(env, tkind, "r2")
    else:
        f.write(env, "r2", {"c": right})
        robj = f.make(env, "dict", "r2")["c"]
    try:
        want = ("ok", cmp[1](copy_tree(left), copy_tree(right)))
    except Exception as e:
        want = ("exc", e)
    try:
        got = ("ok", cmp[1](lobj, robj))
    except Exception as e:
        got = ("exc", e)
    case(tkind, okind, cmp[0], n1, n2)
    good = got[0] == want[0] and (got[0] == "exc" or bool(got[1]) == bool(want[1]))
    if not good:
        if known(PID, {"harness": "compare", "op": cmp[0], "operand": okind}, (ci, n1, n2, x, y, v1, v2)):
            return finish(True, True)
        return finish(True, fail(lambda: f"JSON{tkind.capitalize()}({left!r}) {cmp[0]} {okind} {right!r}: library {got!r}, built-in {want!r}"))
    # reflected form: plain on the left
    if okind == "plain":
        try:
            want2 = ("ok", cmp[1](copy_tree(right), copy_tree(left)))
        except Exception as e:
            want2 = ("exc", e)
        try:
            got2 = ("ok", cmp[1](copy_tree(right), lobj))
        except Exception as e:
            got2 = ("exc", e)
        good = got2[0] == want2[0] and (got2[0] == "exc" or bool(got2[1]) == bool(want2[1]))
        if not good:
            if known(PID, {"harness": "compare", "op": cmp[0] + "-reflected", "operand": okind}, (ci, n1, n2, x, y, v1, v2)):
                return finish(True, True)
            return finish(True, fail(lambda: f"plain {right!r} {cmp[0]} JSON{tkind.capitalize()}({left!r}): library {got2!r}, built-in {want2!r}"))
    return finish(True, True)


def prog2(op1: int, op2: int, i: int, x: int, y: int, v1: int) -> bool:
    """
    pre: -2 <= i <= 2
    post: _
    """
    env = get_env().reset()
    tkind = WHICH[hlib.PART % 2]
    table = all_ops(tkind)
    nsl = max(1, hlib.NPARTS // 2)
    o1 = pick(table[(hlib.PART // 2)::nsl], op1)
    o2 = pick(table, op2)
    if o1 is None or o2 is None or o1.concrete or o2.concrete:
        return finish(False, True)
    f = FAM["JSON"]
    doc = {"p": x, "s": y} if tkind == "dict" else [x, y]
    ref = copy_tree(doc)
    f.write(env, "r", doc)
    root = f.make(env, tkind, "r")
    for o in (o1, o2):
        vv = copy_tree(ref) if o.name.endswith("_plain") else v1
        a_lib, a_ref = ops.A(v=vv, w=v1, i=i, j=i + 1), ops.A(v=copy_tree(vv), w=v1, i=i, j=i + 1)
        try:
            r_lib = ("ok", o.fn(root, a_lib))
        except Exception as e:
            r_lib = ("exc", e)
        if o.name == "popitem" and r_lib[0] == "ok":
            r_ref = ("ok", (r_lib[1][0], ref.pop(r_lib[1][0], MISSING)))
        else:
            try:
                r_ref = ("ok", o.ref(ref, a_ref))
            except Exception as e:
                r_ref = ("exc", e)
        good = r_lib[0] == r_ref[0] and (
            hlib.exc_class_ok(r_lib[1], r_ref[1]) if r_lib[0] == "exc"
            else (o.name == "iadd" or _res_eq(o, _sorted_if_keys(o, plain(r_lib[1])) if not o.mut else plain(r_lib[1]), _sorted_if_keys(o, plain(r_ref[1])) if not o.mut else plain(r_ref[1])))
        )
        if not good:
            if known(PID, {"harness": "refine", "op": o.name}, (op1, op2, i, x, y, v1)):
                return finish(True, True)
            return finish(True, fail(lambda: f"program ({o1.name},{o2.name}) at {o.name}: library {r_lib!r}, built-in {r_ref!r}"))
        got, want = root(), plain(ref)
        if not eq_plain(got, want):
            return finish(True, fail(lambda: f"program ({o1.name},{o2.name}) after {o.name}: content {got!r}, built-in {want!r}"))
    case(tkind, o1.name, o2.name)
    return finish(True, True)


def plan(tier):
    if tier == "quick":
        return [
            {"fn": "refine", "nparts": 6 * 4, "timeout": 300},
            {"fn": "slices", "nparts": 14, "timeout": 300},
            {"fn": "compare", "nparts": 8, "timeout": 300},
        ]
    return [
        {"fn": "refine", "nparts": 18 * 4, "timeout": 1500},
        {"fn": "slices", "nparts": 14, "timeout": 1500},
        {"fn": "compare", "nparts": 8, "timeout": 1500},
        {"fn": "prog2", "nparts": 32, "timeout": 1500},
    ]


def smoke(tier):
    out = []
    for part in range(24):
        for opi in range(10):
            out.append(("refine", (opi, opi % 4, 1, 2, 1, 2, 3, 4, 5), part, 24))
    for part in range(14):
        for opi in range(3):
            out.append(("slices", (opi, -1, 2, 1, 2, 3, 4, 5), part, 14))
    for part in range(8):
        for ci in range(6):
            out.append(("compare", (ci, 2, 1, 1, 2, 1, 3), part, 8))
    return out


FUNCTIONS = [
    "synced_collections.data_types.synced_collection:SyncedCollection.__getitem__",
    "synced_collections.data_types.synced_collection:SyncedCollection.__delitem__",
    "synced_collections.data_types.synced_collection:SyncedCollection.__eq__",
    "synced_collections.data_types.synced_dict:SyncedDict.__setitem__",
    "synced_collections.data_types.synced_dict:SyncedDict.pop",
    "synced_collections.data_types.synced_dict:SyncedDict.popitem",
    "synced_collections.data_types.synced_dict:SyncedDict.update",
    "synced_collections.data_types.synced_dict:SyncedDict.setdefault",
    "synced_collections.data_types.synced_dict:SyncedDict.get",
    "synced_collections.data_types.synced_list:SyncedList.__setitem__",
    "synced_collections.data_types.synced_list:SyncedList.insert",
    "synced_collections.data_types.synced_list:SyncedList.remove",
    "synced_collections.data_types.synced_list:SyncedList.__lt__",
    "synced_collections.data_types.synced_list:SyncedList.__le__",
    "synced_collections.data_types.synced_list:SyncedList.__gt__",
    "synced_collections.data_types.synced_list:SyncedList.__ge__",
    "synced_collections.data_types.synced_list:SyncedList.__reversed__",
]
BOUNDS = {
    "quick": {"classes": "JSONDict/JSONList roots, target at depth 0 and 1", "operations": "20+18 dict, 17+18 list table entries, 3 extended-slice forms, 6 comparison operators x 4 operand kinds", "indices": "[-3,3] symbolic on 2-element lists; slice start/stop symbolic in [-3,3], step -3..3 by partition, 3-element lists", "leaves": "symbolic ints", "argument_shapes": [s[0] for s in VSHAPES]},
    "thorough": {"classes": "JSON, MemoryBufferedJSONAttr, Redis families; 3-element lists; 2-step programs"},
}
ASSUMPTIONS = [
    "environment models of vf/env_model.py",
    "documented deviations encoded in the reference: dict.pop(missing) -> None; key order compared order-insensitively; popitem compared against the popped key; tuples compare as lists; rejected inputs are C11's",
    "repr()/str() are executed natively on concrete operands (CrossHair replaces them by unconstrained strings otherwise)",
]
OUTSIDE = ["lists longer than 3, indices beyond [-3,3]", "programs longer than 2 steps", "float leaves"]
