"""Engine A driver: CrossHair over harness functions, partitioned across processes,
with replay of every counterexample against the untouched library in the real
environment, vacuity guards, known-finding accounting and evidence output."""
import ast
import collections
import hashlib
import importlib
import inspect
import json
import multiprocessing as mp
import os
import subprocess
import sys
import time
import traceback

ROOT = os.path.dirname(os.path.dirname(os.path.abspath(__file__)))
NCPU = int(os.environ.get("VF_NCPU", "16"))


class Job:
    def __init__(self, module, fn, part=0, nparts=1, timeout=60.0, mode="check", tier="quick", label=None):
        self.module = module
        self.fn = fn
        self.part = part
        self.nparts = nparts
        self.timeout = timeout
        self.mode = mode
        self.tier = tier
        self.label = label or f"{fn}[{part}/{nparts}]"

    def key(self):
        return (self.module, self.fn, self.part, self.nparts, self.mode)


def _parse_call(message):
    """'false when calling f(3, 'hi', None) (which returns False)' -> [3, 'hi', None]"""
    marker = "when calling "
    i = message.find(marker)
    if i < 0:
        return None
    expr = message[i + len(marker):]
    j = expr.rfind(" (which returns")
    if j >= 0:
        expr = expr[:j]
    try:
        node = ast.parse(expr.strip(), mode="eval").body
        args = [ast.literal_eval(a) for a in node.args]
        kwargs = {k.arg: ast.literal_eval(k.value) for k in node.keywords}
        return {"args": args, "kwargs": kwargs}
    except Exception:
        return None


def _worker(job):
    """Runs in a fresh process: one CrossHair analysis of one partition."""
    t0 = time.time()
    out = {"label": job.label, "fn": job.fn, "part": job.part, "nparts": job.nparts, "mode": job.mode}
    deadline = float(os.environ.get("VF_DEADLINE_TS", "0") or 0)
    if deadline and t0 > deadline and job.mode == "check":
        # time budget of the tier used up before this partition could start: reported as
        # not explored (inconclusive), never as confirmed
        out.update({"skipped": True, "messages": [], "num_paths": 0, "queries": 0, "solver_s": 0.0, "cases": [], "hits": {}, "wall_s": 0.0})
        return out
    try:
        os.environ["VF_MODE"] = "model"
        sys.setrecursionlimit(5000)
        import z3

        qstat = {"n": 0, "t": 0.0}
        orig_check = z3.Solver.check

        def counted(self, *a):
            s = time.perf_counter()
            try:
                return orig_check(self, *a)
            finally:
                qstat["n"] += 1
                qstat["t"] += time.perf_counter() - s

        z3.Solver.check = counted
        from crosshair.core_and_libs import analyze_function, run_checkables
        from crosshair.options import AnalysisOptionSet
        from . import hlib, findings

        hlib.PART = job.part
        hlib.NPARTS = job.nparts
        hlib.MODE = job.mode
        hlib.TIER = job.tier
        hlib.KNOWN = findings.Findings()
        hlib.get_env("model")
        mod = importlib.import_module(job.module)
        fn = getattr(mod, job.fn)
        stats = collections.Counter()
        opts = AnalysisOptionSet(
            per_condition_timeout=job.timeout,
            per_path_timeout=max(30.0, job.timeout / 4),
            report_all=True,
            stats=stats,
        )
        msgs = list(run_checkables(analyze_function(fn, opts)))
        out["messages"] = [
            {"state": m.state.name, "message": m.message, "line": m.line, "call": _parse_call(m.message)}
            for m in msgs
        ]
        out["num_paths"] = int(stats.get("num_paths", 0))
        out["queries"] = qstat["n"]
        out["solver_s"] = round(qstat["t"], 3)
        out["cases"] = sorted(map(list, hlib.CASES), key=repr)
        out["hits"] = hlib.HITS
    except BaseException as e:  # noqa
        out["error"] = "".join(traceback.format_exception(type(e), e, e.__traceback__))[-4000:]
    out["wall_s"] = round(time.time() - t0, 2)
    return out


def run_jobs(jobs, ncpu=NCPU):
    if not jobs:
        return []
    ctx = mp.get_context("fork")
    with ctx.Pool(min(ncpu, len(jobs)), maxtasksperchild=1) as pool:
        return pool.map(_worker, jobs, chunksize=1)


def replay(module, fn, call, ctx=None, timeout=300, extra_env=None):
    """Re-run a counterexample concretely against the real environment in a fresh
    process.  Returns dict(outcome=pass|fail|exception|timeout, detail=...)."""
    payload = json.dumps({"module": module, "fn": fn, "call": call, "ctx": ctx or {}})
    env = dict(os.environ)
    env["VF_MODE"] = "real"
    env["PYTHONPATH"] = f"{os.environ.get('VF_REPO', '/repo')}:{ROOT}" + (":" + env["PYTHONPATH"] if env.get("PYTHONPATH") else "")
    if extra_env:
        env.update(extra_env)
    try:
        p = subprocess.run(
            [sys.executable, "-m", "vf.replay"], input=payload, capture_output=True, text=True,
            timeout=timeout, cwd=ROOT, env=env,
        )
    except subprocess.TimeoutExpired:
        return {"outcome": "timeout", "detail": [f"no result within {timeout}s"]}
    for line in p.stdout.splitlines()[::-1]:
        if line.startswith("REPLAY-RESULT "):
            return json.loads(line[len("REPLAY-RESULT "):])
    return {"outcome": "error", "detail": [p.stdout[-2000:], p.stderr[-2000:]]}


def source_fingerprint(functions):
    """Qualified names + sha1 of the current source of the library functions a
    harness exercises (shows that the encoding is regenerated from the tree)."""
    out = {}
    for qn in functions:
        modname, _, attr = qn.partition(":")
        try:
            obj = importlib.import_module(modname)
            for part in attr.split("."):
                obj = getattr(obj, part)
            if isinstance(obj, property):
                obj = obj.fget
            obj = inspect.unwrap(getattr(obj, "__func__", obj))
            src = inspect.getsource(obj)
            out[qn] = hashlib.sha1(src.encode()).hexdigest()[:12]
        except Exception as e:
            out[qn] = f"unavailable: {type(e).__name__}"
    return out
