"""known_findings.json: committed, never written at run time."""
import json
import os

PATH = os.path.join(os.path.dirname(os.path.dirname(os.path.abspath(__file__))), "known_findings.json")


def _m(want, got):
    if want == "*":
        return True
    if isinstance(want, list):
        return got in want
    return want == got


class Findings:
    def __init__(self, path=PATH):
        self.entries = []
        if os.path.exists(path):
            self.entries = json.load(open(path))["findings"]

    def match(self, pid, fp):
        for e in self.entries:
            if e["property"] != pid or e.get("status") != "open":
                continue
            if all(k in fp and _m(v, fp[k]) for k, v in e["fp"].items()):
                return e
        return None

    def by_id(self, i):
        for e in self.entries:
            if e["id"] == i:
                return e
