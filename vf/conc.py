"""Concurrent two-thread programs for Engine C: set-up in the real environment,
tracing, serial outcomes, replay of solver witnesses on real threads, evidence."""
import json
import os
import threading
import time

from . import hlib, ops, order_smt
from .hlib import MISSING, copy_tree, plain


class Prog:
    def __init__(self, fam, which, relation, op1, op2, ctx=None, tkind1=None, tkind2=None, outcome_keys=None, ignore_values=()):
        self.outcome_keys = outcome_keys  # compare only these parts of the outcome (None: all)
        self.ignore_values = tuple(ignore_values)  # thread numbers whose returned VALUE is not compared (exceptions still are)
        self.fam = fam
        self.which = which
        self.relation = relation  # same | two | nested-same | nested-two | two-files
        self.op1 = op1  # (opname, kind)
        self.op2 = op2
        self.ctx = ctx  # None | ("backend", capacity)

    def label(self):
        c = "" if not self.ctx else f" in buffer_backend({self.ctx[1]})"
        return f"{self.fam.cls(self.which).__name__} [{self.relation}] {self.op1} || {self.op2}{c}"


def op_by_name(kind, name):
    for o in ops.mutators(kind) + ops.readers(kind):
        if o.name == name:
            return o
    raise KeyError((kind, name))


class World:
    def __init__(self, prog, traced=True):
        self.prog = prog
        env = hlib.get_env("real").reset()
        self.env = env
        order_smt.install_locks(env)
        if traced:
            order_smt.fs_hook(env)
        fam, which = prog.fam, prog.which
        doc = {"a": {"p": 1}, "p": 2} if which == "dict" else [{"p": 1}, 2, 3]
        fam.write(env, "f", doc)
        self.A = fam.make(env, which, "f")
        self.handles = {"A": self.A}
        k = "a" if which == "dict" else 0
        rel = prog.relation
        if rel == "same":
            self.t = {1: (self.A, which), 2: (self.A, which)}
        elif rel == "two":
            self.B = fam.make(env, which, "f")
            self.handles["B"] = self.B
            self.t = {1: (self.A, which), 2: (self.B, which)}
        elif rel == "nested-same":
            self.t = {1: (self.A[k], "dict"), 2: (self.A, which)}
        elif rel == "nested-two":
            self.B = fam.make(env, which, "f")
            self.handles["B"] = self.B
            self.t = {1: (self.A[k], "dict"), 2: (self.B, which)}
        elif rel == "two-files":
            fam.write(env, "g", copy_tree(doc))
            self.B = fam.make(env, which, "g")
            self.handles["B"] = self.B
            self.t = {1: (self.A, which), 2: (self.B, which)}
        else:
            raise ValueError(rel)
        self.ctx = None

    def call(self, n):
        target, kind = self.t[n]
        name = (self.prog.op1 if n == 1 else self.prog.op2)
        if name == "exit_ctx":
            # this thread leaves the backend-wide buffered context while the other one works
            self.exit_ctx()
            return None
        if name == "filename_set":
            target.filename = target.filename + "_moved"
            return None
        if name == "iterate_partially":
            it = iter(target)
            first = next(it, None)
            self._kept_iterators = getattr(self, "_kept_iterators", []) + [it]  # keep it alive
            return first
        container = name.endswith("+c")  # "+c": the operation's value argument is a container
        name = name[:-2] if container else name
        op = op_by_name(kind, name)
        v = {"k": 10 + n} if container else 10 + n
        a = ops.A(v=v, w=30 + n, i=0, j=1)
        return op.fn(target, a)  # converted to plain data only after both threads are done

    def enter_ctx(self):
        if self.prog.ctx:
            cls = self.prog.fam.cls(self.prog.which)
            cap = self.prog.ctx[1]
            self._cap0 = None
            if cap == "tight":
                # default capacity, then the second thread's object is modified and the capacity
                # is set to exactly what the buffer holds: whatever enters the buffer next
                # (a read of another file, a further modification) forces a flush
                self.ctx = cls.buffer_backend()
                self.ctx.__enter__()
                target, kind = self.t[2]
                if kind == "dict":
                    target["pre"] = 0
                else:
                    target.append(0)
                self._cap0 = cls.get_buffer_capacity()
                cls.set_buffer_capacity(cls.get_current_buffer_size())
                return
            self.ctx = cls.buffer_backend(cap) if cap is not None else cls.buffer_backend()
            self.ctx.__enter__()

    def exit_ctx(self):
        if self.ctx is not None:
            c, self.ctx = self.ctx, None
            try:
                c.__exit__(None, None, None)
            finally:
                if getattr(self, "_cap0", None) is not None:
                    cls = self.prog.fam.cls(self.prog.which)
                    cap0, self._cap0 = self._cap0, None
                    cls.set_buffer_capacity(cap0)

    def outcome(self, r1, r2):
        def conv(r):
            if r is None or r[0] != "ok":
                return r
            try:
                return ("ok", plain(r[1]))
            except Exception as e:
                return ("ok", f"<unconvertible {type(e).__name__}>")

        r1, r2 = conv(r1), conv(r2)
        if 1 in self.prog.ignore_values and r1 is not None and r1[0] == "ok":
            r1 = ("ok", "<not compared>")
        if 2 in self.prog.ignore_values and r2 is not None and r2[0] == "ok":
            r2 = ("ok", "<not compared>")
        self.exit_err = None
        try:
            self.exit_ctx()
        except Exception as e:
            self.exit_err = type(e).__name__
        files = {n: self.env.read_doc(n) for n in ("f", "g") if self.env.read_doc(n) is not MISSING}
        reads = {}
        for n, h in self.handles.items():
            try:
                reads[n] = h()
            except Exception as e:
                reads[n] = f"<{type(e).__name__}>"
        size = None
        cls = self.prog.fam.cls(self.prog.which)
        if hasattr(cls, "get_current_buffer_size"):
            size = cls.get_current_buffer_size()
        full = {"r1": r1, "r2": r2, "files": files, "reads": reads, "exit": self.exit_err, "size": size, "leaked_locks": order_smt.leaked_locks()}
        if self.prog.outcome_keys:
            full = {k: v for k, v in full.items() if k in self.prog.outcome_keys}
        return json.dumps(full, sort_keys=True, default=repr)


def _safe(fn):
    try:
        return ("ok", fn())
    except Exception as e:
        return ("exc", type(e).__name__)


def serial_outcomes(prog):
    outs = {}
    for order in ((1, 2), (2, 1)):
        order_smt.REC = None
        w = World(prog, traced=False)
        w.enter_ctx()
        res = {}
        for n in order:
            res[n] = _safe(lambda n=n: w.call(n))
        outs[w.outcome(res[1], res[2])] = order
    return outs


def register_world(rec, w):
    for name, h in w.handles.items():
        rec.register(h, name)
        try:
            rec.register(object.__getattribute__(h, "_suspend_sync"), f"suspend:{name}")
        except Exception:
            pass
        try:
            rec.register(object.__getattribute__(h, "buffered"), f"buffered:{name}")
        except Exception:
            pass
    cls = w.prog.fam.cls(w.prog.which)
    if "_buffer_context" in cls.__dict__:
        rec.register(cls.__dict__["_buffer_context"], "backend-context")


def trace(prog, n, after_other=False):
    """Events of operation n executed alone (optionally after the other operation)."""
    order_smt.REC = None
    w = World(prog, traced=True)
    w.enter_ctx()
    if after_other:
        _safe(lambda: w.call(3 - n))
    rec = order_smt.Recorder()
    register_world(rec, w)
    order_smt.REC = rec
    order_smt.run_traced(n, lambda: w.call(n))
    order_smt.REC = None
    try:
        w.exit_ctx()
    except Exception:
        pass
    return rec.events.get(n, [])


def replay(prog, order, timeout=30.0):
    """Force the witness order on two real threads."""
    order_smt.REC = None
    w = World(prog, traced=True)
    w.enter_ctx()
    rec = order_smt.Recorder()
    register_world(rec, w)
    rec.baton = order_smt.Baton(order)
    order_smt.REC = rec
    res = {}

    def body(n):
        res[n] = order_smt.run_traced(n, lambda: w.call(n))

    ths = [threading.Thread(target=body, args=(n,), daemon=True) for n in (1, 2)]
    for t in ths:
        t.start()
    t0 = time.time()
    for t in ths:
        t.join(max(0.1, timeout - (time.time() - t0)))
    hang = any(t.is_alive() for t in ths) or rec.baton.hang or any(r[0] == "hang" for r in res.values())
    order_smt.REC = None
    if hang:
        return {"hang": True, "diverged": rec.baton.diverged, "outcome": None, "res": {k: v for k, v in res.items()}}
    return {"hang": False, "diverged": rec.baton.diverged, "outcome": w.outcome(res.get(1), res.get(2)), "res": res}


def windows(order, t1):
    """Names of the functions thread 1 was in -- below its innermost _load frame, while it
    held the suspend counter itself -- at the points where the witness switches away
    from it."""
    names = set()
    try:
        if len([x for x in order if x == 1]) != len(t1):
            return ["?"]
        k1 = -1
        for pos, t in enumerate(order):
            if t == 1:
                k1 += 1
                nxt = order[pos + 1] if pos + 1 < len(order) else None
                if nxt == 2 and k1 + 1 < len(t1):
                    raised, callee = t1[k1].get("win", (False, None))
                    if raised:
                        names.add(callee or "outside-_load")
    except Exception:
        return ["?"]
    return sorted(names)


def decide_pair(prog, max_replays=10, variants=False, check_deadlock=True, cycles=True, is_known=None):
    """Full decision for one two-operation program.  Returns a dict with verdict
    ('unsat' = no conflict-cyclic ordering of the recorded events, 'violated',
    'candidates-serial' = every witness replayed to a serial outcome) and statistics."""
    t_start = time.time()
    out = {"program": prog.label(), "queries": 0, "solver_s": 0.0, "replays": 0, "events": 0, "witnesses": [], "verdict": None}
    serial = serial_outcomes(prog)
    combos = [(False, False)] + ([(False, True), (True, False)] if variants else [])
    worst = "unsat"
    known_violation = None
    for a1, a2 in combos:
        t1 = trace(prog, 1, after_other=a1)
        t2 = trace(prog, 2, after_other=a2)
        out["events"] += len(t1) + len(t2)
        if not t1 or not t2:
            raise RuntimeError(f"vacuous program: an operation produced no library events ({len(t1)}, {len(t2)})")
        if check_deadlock:
            v, wit, q, s = order_smt.deadlock_query(t1, t2)
            out["queries"] += q
            out["solver_s"] += s
            if v == "sat":
                # replay: thread 1 runs up to its acquisition, then thread 2, ...
                i, j = wit[0], wit[1]
                order = [1] * i + [2] * j + [1, 2] * 3
                rep = replay(prog, order, timeout=12.0)
                out["replays"] += 1
                if rep["hang"]:
                    # a hang must reproduce (a starved machine can make one replay time out)
                    rep = replay(prog, order, timeout=20.0)
                    out["replays"] += 1
                out["witnesses"].append({"kind": "deadlock", "detail": wit[2:], "replay_hang": rep["hang"]})
                if rep["hang"]:
                    out["verdict"] = "violated"
                    out["violation"] = {"kind": "deadlock", "locks": wit[2:], "order_prefix": (i, j)}
                    out["wall_s"] = round(time.time() - t_start, 2)
                    return out
        if not cycles:
            continue
        pb = order_smt.OrderProblem(t1, t2)
        n_rep = 0
        for (ka, kb), r, order in pb.cycles():
            if r == "unknown":
                worst = "unknown"
            if r != "sat":
                continue
            if worst == "unsat":
                worst = "candidates-serial"
            if n_rep >= max_replays:
                worst = "candidates-unresolved"
                continue
            rep = replay(prog, order)
            n_rep += 1
            out["replays"] += 1
            if rep["hang"]:
                # a hang must reproduce (a starved machine can make one replay time out)
                rep = replay(prog, order, timeout=45.0)
                out["replays"] += 1
            w = {"kind": "cycle", "classes": [list(ka), list(kb)], "hang": rep["hang"], "diverged": rep["diverged"]}
            out["witnesses"].append(w)
            if rep["hang"]:
                out["verdict"] = "violated"
                out["violation"] = {"kind": "hang", "order": order, "classes": [list(ka), list(kb)]}
                break
            if rep["outcome"] not in serial:
                viol = {"kind": "non-serial-outcome", "order": order, "classes": [list(ka), list(kb)], "outcome": json.loads(rep["outcome"]), "serial_outcomes": [json.loads(s) for s in serial],
                        "t1_window": windows(order, t1)}
                if is_known is not None and is_known(viol):
                    # a recorded finding: remember it, but keep looking for a violation of another kind
                    if known_violation is None:
                        known_violation = viol
                    continue
                out["verdict"] = "violated"
                out["violation"] = viol
                break
        out["queries"] += pb.queries
        out["solver_s"] += pb.solver_s
        if out["verdict"] == "violated":
            break
    if out["verdict"] is None and known_violation is not None:
        out["verdict"] = "violated"
        out["violation"] = known_violation
    if out["verdict"] is None:
        out["verdict"] = worst
    out["solver_s"] = round(out["solver_s"], 3)
    out["wall_s"] = round(time.time() - t_start, 2)
    return out
