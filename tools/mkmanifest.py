#!/usr/bin/env python3
"""Regenerate MANIFEST.json from tools/checks.json (claimed checks) + properties.jsonl."""
import json, os
R = os.path.dirname(os.path.dirname(os.path.abspath(__file__)))
checks = json.load(open(os.path.join(R, "tools/checks.json")))
ids = [json.loads(l)["id"] for l in open(os.path.join(R, "properties.jsonl"))]
m = {
    "version": 1,
    "setup_cmd": "./setup.sh",
    "hooks": {
        "guard": "SYNCED_COLLECTIONS_VERIF",
        "enable": "no source hooks are needed: all instrumentation (environment models, lock proxies, tracers) is injected through module attributes at run time",
        "baseline_off_cmd": "cd /repo && /venv/bin/python -m pytest -ra -q -p no:cacheprovider --timeout=900 --continue-on-collection-errors",
        "source_commits": [],
        "add_only": True,
    },
    "engines": checks["engines"],
    "checks": [],
    "not_applicable": [],
    "notes": checks.get("notes", ""),
}
for i in ids:
    c = checks["checks"].get(i)
    if c is None or c.get("not_applicable"):
        m["not_applicable"].append({"property_id": i, "reason": (c or {}).get("not_applicable", "check not built yet (see DESIGN.md section 6 for the plan)")})
        continue
    m["checks"].append({
        "property_id": i,
        "quick_cmd": f"./vcheck {i} quick",
        "thorough_cmd": f"./vcheck {i} thorough",
        "evidence_file": f"/verif/evidence/{i}.json",
        "replay_cmd_template": f"./vcheck {i} quick --replay {{path}}",
        "engine": c["engine"],
        "level_claimed": {"category": c.get("category", "model_checking"), "text": c["text"], "design_ref": c.get("design_ref", f"DESIGN.md section 6, {i}")},
        "level_note": c["note"],
        "technique": c["technique"],
    })
json.dump(m, open(os.path.join(R, "MANIFEST.json"), "w"), indent=1)
print("claimed", [c["property_id"] for c in m["checks"]], "n/a", len(m["not_applicable"]))
