"""C03 Operations refine built-in dict/list: same results, same errors, same content.

Engine A, inductive single step from an arbitrary loaded state.
* `refine`  -- every mutator and reader of the MutableMapping/MutableSequence surface
  (mixins included) with symbolic indices, on the root and on a nested child.
* `slices`  -- extended slices get/set/del with symbolic start/stop/step in [-3,3].
* `compare` -- ==, !=, <, <=, >, >= with plain, same-class and other-class operands.
* `prog2`   -- (thorough) two-step programs, results compared at both steps."""
import operator

from vf import hlib, ops
from vf.hlib import FAM, Leaves, MISSING, case, fail, fill, finish, get_env, pick, plain, eq_plain, same_tree, is_plain, at, copy_tree, known

PID = "C03"
IDX = [-3, -2, -1, 0, 1, 2, 3]
WHICH = ["dict", "list"]

VSHAPES = [hlib.D1[0], hlib.D1[3], hlib.D1[6], ("(x,)", (hlib.SLOT,))]


def fams():
    if hlib.TIER == "thorough":
        return [FAM["JSON"], FAM["MemoryBufferedJSONAttr"], FAM["Redis"]]
    return [FAM["JSON"]]


def build(which, depth, tkind, x, y, z):
    T = {"p": x, "s": y} if tkind == "dict" else [x, y, z][: (3 if hlib.TIER == "thorough" else 2)]
    if depth == 0:
        return T, ()
    if which == "dict":
        return {"a": T, "b": 9}, ("a",)
    return [T, 9], (0,)


def _sorted_if_keys(op, r):
    # key order is documented as unspecified after bulk updates: order-insensitive compare
    if op.name in ("iter", "keys") and isinstance(r, list):
        return sorted(r)
    if op.name == "items":
        return sorted(r, key=lambda kv: kv[0])
    return r


def _res_eq(op, a, b):
    if op.name == "values" and isinstance(a, list) and isinstance(b, list):
        # multiset comparison without ordering or formatting symbolic leaves
        if len(a) != len(b):
            return False
        rest = list(b)
        for x in a:
            hit = -1
            for n, y in enumerate(rest):
                if eq_plain(x, y):
                    hit = n
                    break
            if hit < 0:
                return False
            del rest[hit]
        return True
    return eq_plain(a, b)


def one_op(env, fam, which, depth, tkind, op, a_lib, a_ref, x, y, z):
    """Run op on the library object and on the reference; return '' or a failure text
    producer.  Also checks that an operation that raises changes nothing."""
    doc, path = build(which, depth, tkind, x, y, z)
    ref = copy_tree(doc)
    fam.write(env, "r", doc)
    root = fam.make(env, which, "r")
    target = root
    for k in path:
        target = target[k]
    before_tok = fam.writes(env)
    try:
        r_lib = ("ok", op.fn(target, a_lib))
    except Exception as e:
        r_lib = ("exc", e)
    after_tok = fam.writes(env)
    tref = at(ref, path)
    if op.name == "popitem" and r_lib[0] == "ok":
        # which item is popped is order-dependent: pop the same key from the reference
        kk = r_lib[1][0]
        try:
            r_ref = ("ok", (kk, tref.pop(kk)))
        except Exception as e:
            r_ref = ("exc", e)
    else:
        try:
            r_ref = ("ok", op.ref(tref, a_ref))
        except Exception as e:
            r_ref = ("exc", e)
    if r_lib[0] != r_ref[0]:
        return lambda: f"{op.name}: library {r_lib!r}, built-in {r_ref!r}"
    if r_lib[0] == "exc":
        if not hlib.exc_class_ok(r_lib[1], r_ref[1]):
            return lambda: f"{op.name}: library raises {r_lib[1]!r}, built-in raises {r_ref[1]!r}"
    else:
        a, b = plain(r_lib[1]), plain(r_ref[1])
        if not op.mut:
            a, b = _sorted_if_keys(op, a), _sorted_if_keys(op, b)
        if op.name not in ("iadd",) and not _res_eq(op, a, b):
            return lambda: f"{op.name}: library returned {a!r}, built-in returned {b!r}"
    want = plain(ref)
    got = root()
    if not eq_plain(got, want):
        return lambda: f"content after {op.name}: {got!r}, built-in {want!r}"
    res = fam.read(env, "r")
    if res is MISSING or not eq_plain(res, want):
        return lambda: f"resource after {op.name}: {res!r}, built-in {want!r}"
    return None


def all_ops(kind):
    return ops.mutators(kind) + ops.readers(kind)


def refine(opi: int, vs: int, i: int, j: int, x: int, y: int, z: int, v1: int, v2: int) -> bool:
    """
    post: _
    """
    env = get_env().reset()
    # partition = (family, root kind, depth, target kind, op slice)
    F = fams()
    cells = [(f, w, d, t) for f in F for w in WHICH for d in (0, 1) for t in WHICH if d == 1 or t == w]
    f, which, depth, tkind = cells[hlib.PART % len(cells)]
    nsl = max(1, hlib.NPARTS // len(cells))
    sl = hlib.PART // len(cells)
    op = pick(all_ops(tkind)[sl::nsl], opi)
    if op is None:
        return finish(False, True)
    shape = pick(VSHAPES, vs) if op.v else VSHAPES[0]
    if shape is None:
        return finish(False, True)
    if op.concrete:
        x, y, z, v1, v2 = 1, 2, 3, 4, 5
    # indices are decided by the solver but concrete afterwards (a symbolic index into a
    # concrete list forks once per value anyway; symbolic slice arithmetic only adds paths)
    i = pick(IDX, i) if op.i else 0
    j = pick(IDX, j) if op.j else (i + 1 if i is not None else None)
    if i is None or j is None:
        return finish(False, True)
    if op.name.endswith("_plain"):
        # operand: the target's own content or a variation of it
        base = {"p": v1, "s": y} if tkind == "dict" else [v1, y]
        a_lib, a_ref = ops.A(v=base, i=i, j=j), ops.A(v=copy_tree(base), i=i, j=j)
        shape = ("content-like",)
    else:
        a_lib = ops.A(v=fill(shape[1], Leaves(v1, v2)), w=v2, i=i, j=j)
        a_ref = ops.A(v=fill(shape[1], Leaves(v1, v2)), w=v2, i=i, j=j)
    case(f.cls(which).__name__, f"depth{depth}", tkind, op.name, shape[0])
    bad = one_op(env, f, which, depth, tkind, op, a_lib, a_ref, x, y, z)
    if bad is not None:
        if known(PID, {"harness": "refine", "op": op.name}, (opi, vs, i, j, x, y, z, v1, v2)):
            return finish(True, True)
        return finish(True, fail(lambda: f"{f.cls(which).__name__} depth {depth} {tkind}: " + bad()))
    return finish(True, True)


def slices(opi: int, i: int, j: int, x: int, y: int, z: int, v1: int, v2: int) -> bool:
    """
    post: _
    """
    env = get_env().reset()
    k = (hlib.PART % 7) - 3  # step fixed by the partition: -3..3 (0 -> ValueError)
    depth = (hlib.PART // 7) % 2
    op = pick(ops.LIST_SLICE_OPS, opi)
    i = pick(IDX, i)
    j = pick(IDX, j)
    if op is None or i is None or j is None:
        return finish(False, True)
    f = FAM["JSON"]
    a_lib, a_ref = ops.A(v=v1, w=v2, i=i, j=j, k=k), ops.A(v=v1, w=v2, i=i, j=j, k=k)
    doc, path = ([x, y, z], ()) if depth == 0 else ({"a": [x, y, z], "b": 9}, ("a",))
    which = "list" if depth == 0 else "dict"
    ref = copy_tree(doc)
    f.write(env, "r", doc)
    root = f.make(env, which, "r")
    target = root
    for kk in path:
        target = target[kk]
    try:
        r_lib = ("ok", op.fn(target, a_lib))
    except Exception as e:
        r_lib = ("exc", e)
    try:
        r_ref = ("ok", op.ref(at(ref, path), a_ref))
    except Exception as e:
        r_ref = ("exc", e)
    case(op.name, f"step{k}", f"depth{depth}", r_lib[0])
    if r_lib[0] != r_ref[0]:
        return finish(True, fail(lambda: f"{op.name} [{i}:{j}:{k}] on {doc!r}: library {r_lib!r}, list {r_ref!r}"))
    if r_lib[0] == "exc":
        if not hlib.exc_class_ok(r_lib[1], r_ref[1]):
            return finish(True, fail(lambda: f"{op.name} [{i}:{j}:{k}]: {r_lib[1]!r} vs {r_ref[1]!r}"))
    elif not eq_plain(plain(r_lib[1]), plain(r_ref[1])):
        return finish(True, fail(lambda: f"{op.name} [{i}:{j}:{k}] on {doc!r}: returned {plain(r_lib[1])!r}, list gives {plain(r_ref[1])!r}"))
    got, want = root(), plain(ref)
    res = f.read(env, "r")
    if not eq_plain(got, want) or not eq_plain(res, want):
        return finish(True, fail(lambda: f"{op.name} [{i}:{j}:{k}] on {doc!r}: content {got!r} / resource {res!r}, list gives {want!r}"))
    return finish(True, True)


def types_mapping_proxy(d):
    import types

    return types.MappingProxyType(dict(d))


CMP = [("eq", operator.eq), ("ne", operator.ne), ("lt", operator.lt), ("le", operator.le), ("gt", operator.gt), ("ge", operator.ge)]
OPERANDS = ["plain", "same-class", "other-class", "nested-child", "plain-tuple", "plain-foreign"]


class _Seq:
    """A user Sequence with the given elements (never equal to a list for built-ins)."""

    def __init__(self, items):
        self._i = list(items)

    def __len__(self):
        return len(self._i)

    def __getitem__(self, k):
        return self._i[k]


import collections as _collections

_Seq = type("_Seq", (_collections.abc.Sequence,), dict(_Seq.__dict__))


def compare(ci: int, n1: int, n2: int, x: int, y: int, v1: int, v2: int) -> bool:
    """
    pre: 0 <= n1 <= 2 and 0 <= n2 <= 2
    post: _
    """
    env = get_env().reset()
    okind = OPERANDS[hlib.PART % len(OPERANDS)]
    tkind = WHICH[(hlib.PART // len(OPERANDS)) % 2]
    cmp = pick(CMP, ci)
    n1 = pick([0, 1, 2], n1)
    n2 = pick([0, 1, 2], n2)
    if cmp is None or n1 is None or n2 is None or (tkind == "dict" and cmp[0] not in ("eq", "ne")):
        return finish(False, True)
    f = FAM["JSON"]
    if tkind == "list":
        left = [x, y][:n1]
        right = [v1, v2][:n2]
    else:
        left = {"p": x, "s": y} if n1 == 2 else ({"p": x} if n1 == 1 else {})
        right = {"p": v1, "s": v2} if n2 == 2 else ({"p": v1} if n2 == 1 else {})
    f.write(env, "r", left)
    lobj = f.make(env, tkind, "r")
    rplain = None
    if okind == "plain":
        robj = copy_tree(right)
    elif okind == "plain-tuple":
        # a non-list Sequence (tuple) / a dict subclass as operand
        robj = tuple(right) if tkind == "list" else _collections.OrderedDict(right)
        rplain = tuple(right) if tkind == "list" else _collections.OrderedDict(right)
    elif okind == "plain-foreign":
        robj = _Seq(right) if tkind == "list" else types_mapping_proxy(right)
        rplain = robj
    elif okind == "same-class":
        f.write(env, "r2", right)
        robj = f.make(env, tkind, "r2")
    elif okind == "other-class":
        g = FAM["BufferedJSON"]
        g.write(env, "r2", right)
        robj = g.make(env, tkind, "r2")
    else:
        f.write(env, "r2", {"c": right})
        robj = f.make(env, "dict", "r2")["c"]
    try:
        want = ("ok", cmp[1](copy_tree(left), copy_tree(right) if rplain is None else rplain))
    except Exception as e:
        want = ("exc", e)
    try:
        got = ("ok", cmp[1](lobj, robj))
    except Exception as e:
        got = ("exc", e)
    case(tkind, okind, cmp[0], n1, n2)
    good = got[0] == want[0] and (got[0] == "exc" or bool(got[1]) == bool(want[1]))
    if not good:
        if known(PID, {"harness": "compare", "op": cmp[0], "operand": okind}, (ci, n1, n2, x, y, v1, v2)):
            return finish(True, True)
        return finish(True, fail(lambda: f"JSON{tkind.capitalize()}({left!r}) {cmp[0]} {okind} {right!r}: library {got!r}, built-in {want!r}"))
    # reflected form: plain on the left
    if okind == "plain":
        try:
            want2 = ("ok", cmp[1](copy_tree(right), copy_tree(left)))
        except Exception as e:
            want2 = ("exc", e)
        try:
            got2 = ("ok", cmp[1](copy_tree(right), lobj))
        except Exception as e:
            got2 = ("exc", e)
        good = got2[0] == want2[0] and (got2[0] == "exc" or bool(got2[1]) == bool(want2[1]))
        if not good:
            if known(PID, {"harness": "compare", "op": cmp[0] + "-reflected", "operand": okind}, (ci, n1, n2, x, y, v1, v2)):
                return finish(True, True)
            return finish(True, fail(lambda: f"plain {right!r} {cmp[0]} JSON{tkind.capitalize()}({left!r}): library {got2!r}, built-in {want2!r}"))
    return finish(True, True)


# ----------------------------------------------------------------------------------
# value-kind sensitivity: what is stored at a position (null, falsy scalars, strings --
# which are Sequences --, containers) and what replaces it, through every entry point
# that looks at the old or the new value
# ----------------------------------------------------------------------------------
OLD_KINDS = ["int", "null", "zero", "false", "empty-str", "str", "list", "dict", "empty-list", "empty-dict", "nested-list"]
NEW_KINDS = OLD_KINDS + ["tuple", "same"]
OLD_QUICK = ["int", "null", "zero", "empty-str", "str", "list", "dict", "nested-list"]
NEW_QUICK = ["int", "null", "str", "empty-str", "list", "dict", "tuple", "same"]


def make_kind(kind, x):
    return {
        "int": x, "null": None, "zero": 0, "false": False, "empty-str": "", "str": "yz", "list": [x], "dict": {"p": x},
        "empty-list": [], "empty-dict": {}, "nested-list": [[x, 2], 3], "tuple": (x, 2),
    }[kind]


def _rd(t, v):
    t.clear()
    t.update(v)


def _rl(t, v):
    t[:] = list(v)


# (name, library call, built-in call); `t` holds the old value at key "p" / index 0
REPLACE_DICT = [
    ("setitem", lambda t, v: t.__setitem__("p", v), None),
    ("update_map", lambda t, v: t.update({"p": v}), None),
    ("update_kwargs", lambda t, v: t.update(p=v), None),
    ("update_pairs", lambda t, v: t.update([("p", v)]), None),
    ("reset", lambda t, v: t.reset({"p": v, "s": 1}), lambda t, v: _rd(t, {"p": v, "s": 1})),
    ("setdefault", lambda t, v: t.setdefault("p", v), None),
    ("get_default", lambda t, v: t.get("p", v), None),
    ("pop_default", lambda t, v: t.pop("p", v), None),
    ("pop", lambda t, v: t.pop("p"), None),
    ("getitem", lambda t, v: t["p"], None),
    ("contains", lambda t, v: "p" in t, None),
    ("eq_self", lambda t, v: t == {"p": v, "s": 1}, None),
    ("values_count", lambda t, v: list(t.values()).count(v), None),
]
REPLACE_LIST = [
    ("setitem", lambda t, v: t.__setitem__(0, v), None),
    ("setslice", lambda t, v: t.__setitem__(slice(0, 1), [v]), None),
    ("reset", lambda t, v: t.reset([v, 1]), lambda t, v: _rl(t, [v, 1])),
    ("reset_shorter", lambda t, v: t.reset([v]), lambda t, v: _rl(t, [v])),
    ("getitem", lambda t, v: t[0], None),
    ("contains", lambda t, v: v in t, None),
    ("count", lambda t, v: t.count(v), None),
    ("index", lambda t, v: t.index(v), None),
    ("remove", lambda t, v: t.remove(v), None),
    ("eq_self", lambda t, v: t == [v, 1], None),
    ("insert", lambda t, v: t.insert(0, v), None),
    ("append", lambda t, v: t.append(v), None),
    ("extend_value", lambda t, v: t.extend(v), None),
    ("iadd_value", lambda t, v: t.__iadd__(v), None),
]


def replace(ei: int, ok: int, nk: int, x: int, v: int) -> bool:
    """
    post: _
    """
    env = get_env().reset()
    cells = [(f, tk, d) for f in fams()[:2] for tk in WHICH for d in (0, 1)]
    f, tkind, depth = cells[hlib.PART % len(cells)]
    table = REPLACE_DICT if tkind == "dict" else REPLACE_LIST
    nsl = max(1, hlib.NPARTS // len(cells))
    ent = pick(table[(hlib.PART // len(cells))::nsl], ei)
    deep = hlib.TIER == "thorough"
    okind = pick(OLD_KINDS if deep else OLD_QUICK, ok)
    nkind = pick(NEW_KINDS if deep else NEW_QUICK, nk)
    if ent is None or okind is None or nkind is None:
        return finish(False, True)
    v = 5  # one symbolic leaf (x): two symbolic leaves multiply the equality forks (6 800+ paths per partition, no verdict in 25 min)
    old = make_kind(okind, x)
    new = copy_tree(old) if nkind == "same" else make_kind(nkind, v)
    T = {"p": old, "s": 1} if tkind == "dict" else [old, 1]
    if depth == 0:
        doc, path, which = T, (), tkind
    else:
        doc, path, which = {"a": T, "b": 9}, ("a",), "dict"
    ref = copy_tree(doc)
    f.write(env, "r", doc)
    root = f.make(env, which, "r")
    target = root
    for k in path:
        target = target[k]
    name, lib_fn, ref_fn = ent
    ref_fn = ref_fn or lib_fn
    new_ref = copy_tree(list(new)) if isinstance(new, tuple) and name not in ("contains", "count", "index", "remove", "eq_self", "values_count") else (new if isinstance(new, tuple) else copy_tree(new))
    try:
        r_lib = ("ok", lib_fn(target, new if isinstance(new, tuple) else copy_tree(new)))
    except hlib.Crash:
        raise
    except Exception as e:
        r_lib = ("exc", e)
    try:
        r_ref = ("ok", ref_fn(at(ref, path), new_ref))
    except Exception as e:
        r_ref = ("exc", e)
    if name == "pop" and r_ref[0] == "exc" and r_lib[0] == "ok":
        r_ref = ("ok", None)
    case(f.cls(which).__name__, tkind, f"depth{depth}", name, okind, nkind)
    label = f"{f.cls(which).__name__} {tkind} at depth {depth}: {name} with old value {old!r} and argument {new!r}"
    if r_lib[0] != r_ref[0]:
        return finish(True, fail(lambda: f"{label}: library {r_lib!r}, built-in {r_ref!r}"))
    if r_lib[0] == "exc":
        if not hlib.exc_class_ok(r_lib[1], r_ref[1]):
            return finish(True, fail(lambda: f"{label}: library raises {r_lib[1]!r}, built-in {r_ref[1]!r}"))
    elif name not in ("iadd_value",) and not same_kind_eq(plain(r_lib[1]), plain(r_ref[1])):
        return finish(True, fail(lambda: f"{label}: library returned {plain(r_lib[1])!r}, built-in {plain(r_ref[1])!r}"))
    want = plain(ref)
    got = root()
    res = f.read(env, "r")
    if not same_kind_eq(got, want):
        return finish(True, fail(lambda: f"{label}: content {got!r}, built-in {want!r}"))
    if res is MISSING or not same_kind_eq(res, want):
        return finish(True, fail(lambda: f"{label}: resource {res!r}, built-in {want!r}"))
    return finish(True, True)


def same_kind_eq(a, b):
    """eq_plain that also tells a str from a list of characters and null from missing."""
    if isinstance(a, str) != isinstance(b, str):
        return False
    if (a is None) != (b is None):
        return False
    if isinstance(a, dict) and isinstance(b, dict):
        if len(a) != len(b):
            return False
        for k in a:
            if k not in b or not same_kind_eq(a[k], b[k]):
                return False
        return True
    if isinstance(a, (list, tuple)) and isinstance(b, (list, tuple)):
        if len(a) != len(b):
            return False
        for p, q in zip(a, b):
            if not same_kind_eq(p, q):
                return False
        return True
    return eq_plain(a, b)



def bounds(i: int, j: int, vi: int, form: int) -> bool:
    """index()/count-like lookups with explicit start/stop (negative, zero, out of range):
    same result or same exception as list.index.  All operands concrete after the solver's
    decisions (CrossHair's model of list.index with bounds is not relied upon).
    post: _
    """
    env = get_env().reset()
    f = fams()[hlib.PART % len(fams())]
    depth = (hlib.PART // len(fams())) % 2
    i = pick([-6, -5, -4, -3, -2, -1, 0, 1, 2, 3, 4, 5, 6], i)
    j = pick([-6, -4, -2, -1, 0, 1, 2, 4, 6, None], j)
    val = pick([10, 20, 30, 99, [1, 2]], vi)
    form = pick(["index(v,i)", "index(v,i,j)"], form)
    if i is None or val is None or form is None or (j is None and form == "index(v,i,j)" and False):
        return finish(False, True)
    return ops.native(_bounds_cell, env, f, depth, i, j, val, form)


def _bounds_cell(env, f, depth, i, j, val, form):
    content = [10, 20, 10, [1, 2], 30]
    doc, path, which = (content, (), "list") if depth == 0 else ({"a": content, "b": 9}, ("a",), "dict")
    f.write(env, "r", copy_tree(doc))
    root = f.make(env, which, "r")
    t = root
    for k in path:
        t = t[k]
    args = (val, i) if form == "index(v,i)" else (val, i, j if j is not None else 10 ** 6)
    try:
        got = ("ok", t.index(*args))
    except hlib.Crash:
        raise
    except Exception as e:
        got = ("exc", e)
    try:
        want = ("ok", copy_tree(content).index(*args))
    except Exception as e:
        want = ("exc", e)
    case(f.cls(which).__name__, f"depth{depth}", form, i, j, repr(val))
    good = got[0] == want[0] and (hlib.exc_class_ok(got[1], want[1]) if got[0] == "exc" else got[1] == want[1])
    return finish(True, good or fail(lambda: f"{f.cls(which).__name__} depth {depth}: {content!r}.{form} with {args!r}: library {got!r}, list {want!r}"))


def prog2(op1: int, op2: int, i: int, x: int, y: int, v1: int) -> bool:
    """
    pre: -2 <= i <= 2
    post: _
    """
    env = get_env().reset()
    tkind = WHICH[hlib.PART % 2]
    table = all_ops(tkind)
    nsl = max(1, hlib.NPARTS // 2)
    o1 = pick(table[(hlib.PART // 2)::nsl], op1)
    o2 = pick(table, op2)
    if o1 is None or o2 is None or o1.concrete or o2.concrete:
        return finish(False, True)
    f = FAM["JSON"]
    doc = {"p": x, "s": y} if tkind == "dict" else [x, y]
    ref = copy_tree(doc)
    f.write(env, "r", doc)
    root = f.make(env, tkind, "r")
    for o in (o1, o2):
        vv = copy_tree(ref) if o.name.endswith("_plain") else v1
        a_lib, a_ref = ops.A(v=vv, w=v1, i=i, j=i + 1), ops.A(v=copy_tree(vv), w=v1, i=i, j=i + 1)
        try:
            r_lib = ("ok", o.fn(root, a_lib))
        except Exception as e:
            r_lib = ("exc", e)
        if o.name == "popitem" and r_lib[0] == "ok":
            r_ref = ("ok", (r_lib[1][0], ref.pop(r_lib[1][0], MISSING)))
        else:
            try:
                r_ref = ("ok", o.ref(ref, a_ref))
            except Exception as e:
                r_ref = ("exc", e)
        good = r_lib[0] == r_ref[0] and (
            hlib.exc_class_ok(r_lib[1], r_ref[1]) if r_lib[0] == "exc"
            else (o.name == "iadd" or _res_eq(o, _sorted_if_keys(o, plain(r_lib[1])) if not o.mut else plain(r_lib[1]), _sorted_if_keys(o, plain(r_ref[1])) if not o.mut else plain(r_ref[1])))
        )
        if not good:
            if known(PID, {"harness": "refine", "op": o.name}, (op1, op2, i, x, y, v1)):
                return finish(True, True)
            return finish(True, fail(lambda: f"program ({o1.name},{o2.name}) at {o.name}: library {r_lib!r}, built-in {r_ref!r}"))
        got, want = root(), plain(ref)
        if not eq_plain(got, want):
            return finish(True, fail(lambda: f"program ({o1.name},{o2.name}) after {o.name}: content {got!r}, built-in {want!r}"))
    case(tkind, o1.name, o2.name)
    return finish(True, True)


def plan(tier):
    if tier == "quick":
        return [
            {"fn": "refine", "nparts": 6 * 4, "timeout": 300},
            {"fn": "slices", "nparts": 14, "timeout": 300},
            {"fn": "compare", "nparts": 12, "timeout": 300},
            {"fn": "replace", "nparts": 16, "timeout": 300},
            {"fn": "bounds", "nparts": 2, "timeout": 300},
        ]
    return [
        {"fn": "refine", "nparts": 18 * 4, "timeout": 900},
        {"fn": "slices", "nparts": 14, "timeout": 900},
        {"fn": "compare", "nparts": 12, "timeout": 900},
        {"fn": "replace", "nparts": 32, "timeout": 900},
        {"fn": "bounds", "nparts": 6, "timeout": 1500},
        {"fn": "prog2", "nparts": 32, "timeout": 900},
    ]


def smoke(tier):
    out = []
    for part in range(24):
        for opi in range(10):
            out.append(("refine", (opi, opi % 4, 1, 2, 1, 2, 3, 4, 5), part, 24))
    for part in range(14):
        for opi in range(3):
            out.append(("slices", (opi, -1, 2, 1, 2, 3, 4, 5), part, 14))
    for part in range(12):
        for ci in range(6):
            out.append(("compare", (ci, 2, 1, 1, 2, 1, 3), part, 12))
            out.append(("compare", (ci, 2, 2, 1, 2, 1, 2), part, 12))
    nb = 2 if tier == "quick" else 6
    for part in range(nb):
        for i in range(13):
            out.append(("bounds", (i, (i * 3) % 10, i % 5, i % 2), part, nb))
    nrep = 16 if tier == "quick" else 32
    for part in range(nrep):
        for ei in range(4):
            for ok in range(8):
                out.append(("replace", (ei, ok, (ok * 5 + ei) % 8, 1, 2), part, nrep))
    return out


FUNCTIONS = [
    "synced_collections.data_types.synced_collection:SyncedCollection.__getitem__",
    "synced_collections.data_types.synced_collection:SyncedCollection.__delitem__",
    "synced_collections.data_types.synced_collection:SyncedCollection.__eq__",
    "synced_collections.data_types.synced_dict:SyncedDict.__setitem__",
    "synced_collections.data_types.synced_dict:SyncedDict.pop",
    "synced_collections.data_types.synced_dict:SyncedDict.popitem",
    "synced_collections.data_types.synced_dict:SyncedDict.update",
    "synced_collections.data_types.synced_dict:SyncedDict.setdefault",
    "synced_collections.data_types.synced_dict:SyncedDict.get",
    "synced_collections.data_types.synced_list:SyncedList.__setitem__",
    "synced_collections.data_types.synced_list:SyncedList.insert",
    "synced_collections.data_types.synced_list:SyncedList.remove",
    "synced_collections.data_types.synced_list:SyncedList.__lt__",
    "synced_collections.data_types.synced_list:SyncedList.__le__",
    "synced_collections.data_types.synced_list:SyncedList.__gt__",
    "synced_collections.data_types.synced_list:SyncedList.__ge__",
    "synced_collections.data_types.synced_list:SyncedList.__reversed__",
]
BOUNDS = {
    "quick": {"classes": "JSONDict/JSONList roots, target at depth 0 and 1", "operations": "20+18 dict, 17+18 list table entries, 3 extended-slice forms, 6 comparison operators x 4 operand kinds", "indices": "[-3,3] symbolic on 2-element lists; slice start/stop symbolic in [-3,3], step -3..3 by partition, 3-element lists", "leaves": "symbolic ints", "argument_shapes": [s[0] for s in VSHAPES]},
    "thorough": {"classes": "JSON, MemoryBufferedJSONAttr, Redis families; 3-element lists; 2-step programs"},
}
ASSUMPTIONS = [
    "environment models of vf/env_model.py",
    "documented deviations encoded in the reference: dict.pop(missing) -> None; key order compared order-insensitively; popitem compared against the popped key; tuples compare as lists; rejected inputs are C11's",
    "repr()/str() are executed natively on concrete operands (CrossHair replaces them by unconstrained strings otherwise)",
]
OUTSIDE = ["lists longer than 3, indices beyond [-3,3]", "programs longer than 2 steps", "float leaves", "value kinds other than the 11+2 listed in OLD_KINDS/NEW_KINDS"]
