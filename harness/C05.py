"""C05 Buffered mode is transparent and defers all writes to the outermost exit.

Engine A, bounded programs: a context pattern (any nesting/sequence of obj.buffered and
Class.buffer_backend(), up to depth 2, including two sessions separated by an unbuffered
operation and an exit caused by an exception) with three operation slots.
Every operation must return what the plain reference returns, the file must not be
touched while a context of the collection is open, and must hold exactly the reference
content when the outermost context exits and at the end.
`values`: one pattern with symbolic leaf values under the symbolic executor."""
from vf import hlib, ops, bufprog
from vf.hlib import BUFFERED_FAMILIES, MISSING, case, fail, finish, get_env, pick, plain, same_tree, eq_plain, copy_tree, known

PID = "C05"
WHICH = ["dict", "list"]
PARTS = [(f, w) for f in BUFFERED_FAMILIES for w in WHICH]  # 8 buffered classes

# E = enter obj.buffered, B = enter backend-wide, X = exit innermost, _ = operation slot
PATTERNS = [
    "ME___X", "MB___X", "ME_X_", "E___X", "B___X", "E_B_X_X", "B_E_X_X", "_E_X_", "E_X_E_X", "B_X_B_X", "E_E_X_X", "B_B_X_X", "E__", "B__", "_B_E_", "E_X_B_X",
    # b = enter backend-wide with a capacity that forces flushes, g = write to a bystander collection (may push the buffer over capacity)
    "b_g_X_", "b_gX_B_X", "bg_X_E_X", "b_g_B_XX",
    # d = the program drops its only reference to the collection (and a garbage collection runs); later slots use a new object on the same file
    "B_dX_", "B_d_X", "b_gd_X",
]

SLOT_OPS = {
    "dict": [(0, "setitem_new"), (0, "setitem_replace"), (0, "delitem"), (0, "clear"), (0, "reset"), (0, "update_two_new"), (0, "getitem"), (0, "call"),
             (1, "setitem_new"), (1, "clear"), (1, "reset"), (1, "call"), (0, "pop"), (0, "len"), (0, "setdefault_new"), (0, "getitem_missing")],
    "list": [(0, "append"), (0, "setitem"), (0, "delitem"), (0, "clear"), (0, "reset"), (0, "reset_longer"), (0, "getitem"), (0, "call"),
             (1, "setitem_new"), (1, "clear"), (1, "reset"), (1, "call"), (0, "pop"), (0, "len"), (0, "insert"), (0, "extend")],
}


def nslot_ops():
    return 12 if hlib.TIER == "thorough" else 8


def op_by_name(kind, name):
    for o in ops.mutators(kind) + ops.readers(kind):
        if o.name == name:
            return o
    raise KeyError(name)


def doc0(which, x, y):
    return {"a": {"p": x}, "p": y} if which == "dict" else [{"p": x}, y, y]


def prog(pat: int, s1: int, s2: int, s3: int, exc: int) -> bool:
    """
    post: _
    """
    env = get_env().reset()
    fam, which = PARTS[hlib.PART % len(PARTS)]
    half = hlib.PART // len(PARTS)
    nh = max(1, hlib.NPARTS // len(PARTS))
    pattern = pick(PATTERNS[half::nh], pat)
    n = nslot_ops()
    third = [0, 3, 4, 7, 8, 9] if hlib.TIER == "thorough" else [0, 3, 4, 7]  # quick: last slot write / clear / reset / read-back
    sel = [pick(list(range(n)), s1), pick(list(range(n)), s2), pick(third, s3)]
    exc = pick([0, 1], exc)
    if pattern is None or None in sel or exc is None:
        return finish(False, True)
    return ops.native(_run, env, fam, which, pattern, sel, exc, (pat, s1, s2, s3, exc), 1, 2, 5, 6)


def _run(env, fam, which, pattern, sel, exc, args, x, y, v, w2):
    w = bufprog.BufWorld(env, fam, which)
    missing = pattern.startswith("M")  # the backing file does not exist yet
    w.add_file("f", MISSING if missing else doc0(which, x, y))
    w.add_obj("o", "f")
    w.add_file("g", doc0(which, 7, 8))
    w.add_obj("bystander", "g")
    forced = False  # inside a context whose capacity may force flushes: writes before the exit are allowed
    nby = 0
    names = ["file-missing"] if missing else []
    slot = 0
    entered_tok = None
    steps = list(pattern.lstrip("M"))
    last_x = max((i for i, c in enumerate(steps) if c == "X"), default=-1)
    fp_base = {"family": fam.buffered, "which": which}
    for idx, c in enumerate(steps):
        was_buffered = bool(w.stack)
        try:
            if c == "E":
                w.enter_obj("o")
                names.append("enter-obj")
            elif c == "B":
                w.enter_backend()
                names.append("enter-backend")
            elif c == "b":
                w.enter_backend(1)
                forced = True
                names.append("enter-backend(capacity 1)")
            elif c == "d":
                import gc

                del w.objs["o"]
                gc.collect()
                w.add_obj("o", "f")
                names.append("drop-reference+gc, new object")
            elif c == "g":
                nby += 1
                by = w.objs["bystander"]
                if which == "dict":
                    by["n%d" % nby] = nby
                    w.ref["g"]["n%d" % nby] = nby
                else:
                    by.append(nby)
                    w.ref["g"].append(nby)
                names.append("bystander-write")
            elif c == "X":
                use_exc = exc == 1 and idx == last_x
                w.exit_innermost(KeyError("boom") if use_exc else None)
                names.append("exit-exc" if use_exc else "exit")
            else:
                if slot >= len(sel):
                    continue
                child, opname = SLOT_OPS[which][sel[slot]]
                slot += 1
                tkind = which if not child else "dict"
                op = op_by_name(tkind, opname)
                names.append(("child." if child else "") + opname)
                r_lib, r_ref = w.apply("o", child, op, ops.A(v=v, w=w2, i=0, j=1), ops.A(v=v, w=w2, i=0, j=1))
                if r_lib is None:
                    return finish(False, True)
                if not bufprog.results_agree(op, r_lib, r_ref):
                    fp = dict(fp_base, op=opname, child=bool(child), buffered=was_buffered, what="result")
                    if known(PID, fp, args):
                        return finish(True, True)
                    return finish(True, fail(lambda: f"{w.cls.__name__} program {names}: {opname} returned {r_lib!r}, unbuffered reference {r_ref!r}"))
        except hlib.Crash:
            raise
        except Exception as e:
            fp = dict(fp_base, step=names[-1] if names else c, raised=type(e).__name__)
            if known(PID, fp, args):
                return finish(True, True)
            return finish(True, fail(lambda: f"{w.cls.__name__} program {names} + {c}: raised {e!r}"))
        now_buffered = bool(w.stack)
        if now_buffered and not was_buffered:
            entered_tok = env.file_token("f")
        if not now_buffered:
            forced = False
        if now_buffered and was_buffered and not forced and env.file_token("f") != entered_tok:
            return finish(True, fail(lambda: f"{w.cls.__name__} program {names}: the file was written while a buffered context is open (effects {env.fs.log[-5:]!r})"))
        if not now_buffered:
            good, got, want = w.file_ok("f")
            if not good:
                fp = dict(fp_base, at="unbuffered-point", after=names[-1], prog_has_clear_or_reset=any(("clear" in n or "reset" in n) for n in names))
                if known(PID, fp, args):
                    return finish(True, True)
                return finish(True, fail(lambda: f"{w.cls.__name__} program {names}: no buffered context is open but the file holds {got!r}, logical content {want!r}"))
    while w.stack:
        try:
            w.exit_innermost()
        except hlib.Crash:
            raise
        except Exception as e:
            return finish(True, fail(lambda: f"{w.cls.__name__} program {names}: closing the contexts raised {e!r}"))
        names.append("exit")
    case(w.cls.__name__, pattern, *names)
    good, got, want = w.file_ok("f")
    if not good:
        fp = dict(fp_base, at="end", prog_has_clear_or_reset=any(("clear" in n or "reset" in n) for n in names))
        if known(PID, fp, args):
            return finish(True, True)
        return finish(True, fail(lambda: f"{w.cls.__name__} program {names}: after all contexts exited the file holds {got!r}, logical content {want!r}"))
    final = w.objs["o"]()
    if not eq_plain(final, plain(w.ref["f"])):
        return finish(True, fail(lambda: f"{w.cls.__name__} program {names}: collection reads {final!r}, logical content {w.ref['f']!r}"))
    good, got, want = w.file_ok("g")
    if not good:
        return finish(True, fail(lambda: f"{w.cls.__name__} program {names}: bystander file holds {got!r}, logical content {want!r}"))
    fresh = w.fam.make(env, which, "f")()
    if not eq_plain(fresh, plain(w.ref["f"])):
        return finish(True, fail(lambda: f"{w.cls.__name__} program {names}: a fresh collection reads {fresh!r}, logical content {w.ref['f']!r}"))
    size = w.cls.get_current_buffer_size()
    if len(w.cls._buffer) != 0:
        return finish(True, fail(lambda: f"{w.cls.__name__} program {names}: {len(w.cls._buffer)} buffer entries left after all contexts exited"))
    return finish(True, size == 0 or fail(lambda: f"{w.cls.__name__} program {names}: buffer size {size} after all contexts exited"))


def values(ctxk: int, s1: int, s2: int, x: int, y: int, v: int) -> bool:
    """
    post: _
    """
    env = get_env().reset()
    fam, which = PARTS[hlib.PART % len(PARTS)]
    kind = pick(["object", "backend"], ctxk)
    table = SLOT_OPS[which][:8]
    a = pick(table, s1)
    b = pick(table, s2)
    if kind is None or a is None or b is None:
        return finish(False, True)
    w = bufprog.BufWorld(env, fam, which)
    w.add_file("f", doc0(which, x, y))
    w.add_obj("o", "f")
    if kind == "object":
        w.enter_obj("o")
    else:
        w.enter_backend()
    tok = env.file_token("f")
    for child, opname in (a, b):
        op = op_by_name(which if not child else "dict", opname)
        r_lib, r_ref = w.apply("o", child, op, ops.A(v=v, w=y, i=0, j=1), ops.A(v=v, w=y, i=0, j=1))
        if r_lib is None:
            return finish(False, True)
        if not bufprog.results_agree(op, r_lib, r_ref):
            return finish(True, fail(lambda: f"{w.cls.__name__} buffered {opname}: {r_lib!r} vs reference {r_ref!r}"))
    if env.file_token("f") != tok:
        return finish(True, fail(lambda: f"{w.cls.__name__}: file written while buffered"))
    w.exit_innermost()
    case(w.cls.__name__, kind, a[1], b[1])
    good, got, want = w.file_ok("f")
    return finish(True, good or fail(lambda: f"{w.cls.__name__} buffered ({a[1]},{b[1]}) with symbolic values: file {got!r}, reference {want!r}"))


def plan(tier):
    t = 300 if tier == "quick" else 900
    return [
        {"fn": "prog", "nparts": len(PARTS) * (4 if tier == "quick" else 23), "timeout": t},
        {"fn": "values", "nparts": len(PARTS), "timeout": t},
    ]


def smoke(tier):
    out = []
    for part in range(len(PARTS)):
        for pat in range(6):
            out.append(("prog", (pat % 5, (pat + part) % 8, (2 * pat + 1) % 8, (pat + part) % 4, pat % 2), part + (pat % 4) * len(PARTS), 4 * len(PARTS)))
        out.append(("values", (part % 2, part % 8, (part + 3) % 8, 1, 2, 3), part, len(PARTS)))
    return out


FUNCTIONS = [
    "synced_collections.buffers.buffered_collection:BufferedCollection._load",
    "synced_collections.buffers.buffered_collection:BufferedCollection._save",
    "synced_collections.buffers.file_buffered_collection:FileBufferedCollection._load_from_buffer",
    "synced_collections.buffers.file_buffered_collection:FileBufferedCollection._flush_buffer",
    "synced_collections.buffers.serialized_file_buffered_collection:SerializedFileBufferedCollection._flush",
    "synced_collections.buffers.serialized_file_buffered_collection:SerializedFileBufferedCollection._save_to_buffer",
    "synced_collections.buffers.serialized_file_buffered_collection:SerializedFileBufferedCollection._load_from_buffer",
    "synced_collections.buffers.memory_buffered_collection:SharedMemoryFileBufferedCollection._flush",
    "synced_collections.buffers.memory_buffered_collection:SharedMemoryFileBufferedCollection._load",
    "synced_collections.buffers.memory_buffered_collection:SharedMemoryFileBufferedCollection._save_to_buffer",
    "synced_collections.buffers.memory_buffered_collection:SharedMemoryFileBufferedCollection._load_from_buffer",
    "synced_collections.utils:_CounterFuncContext.__exit__",
    "synced_collections.data_types.synced_dict:SyncedDict.clear",
    "synced_collections.data_types.synced_list:SyncedList.clear",
    "synced_collections.data_types.synced_list:SyncedList._update",
]
BOUNDS = {"quick": {"classes": 8, "context_patterns": PATTERNS, "operation_slots": 3, "slot_operations": {k: v[:8] for k, v in SLOT_OPS.items()}, "third_slot": "4 of the 8", "last_exit": "normal or caused by an exception", "symbolic_value_harness": "2 operations, symbolic int leaves"},
          "thorough": {"classes": 8, "context_patterns": PATTERNS, "operation_slots": 3, "slot_operations": {k: v[:12] for k, v in SLOT_OPS.items()}, "third_slot": "6 of the 12"}}
ASSUMPTIONS = [
    "`prog`: every selector is finite and decided by the solver's path tree; the decided program then runs the real code natively with concrete leaves (exhaustive enumeration of the bounded program space, not a symbolic claim over values); `values` keeps the leaves symbolic",
    "environment models of vf/env_model.py; default buffer capacity except in the four patterns with capacity 1 (there the file may be written before the exit, everything else is demanded unchanged)",
]
OUTSIDE = ["more than 3 operations", "context nesting deeper than 2", "capacities other than default and 1", "several objects on one file (C06)"]
