"""C01 Write-through: every mutation is in the backend when the call returns.

Engine A.  `step`: inductive single step -- the resource holds an arbitrary document
of the bounded grammar, the in-memory tree was loaded from it, a mutator is issued on
the root or a nested child handle (depth 0..3).  `prog2`: two-step programs (adequacy
of the invariant: "forgets to save after some other operation")."""
from typing import Union

from vf import hlib, ops
from vf.hlib import FAMILIES, Leaves, MISSING, case, fail, fill, finish, get_env, pick, plain, same_tree, is_plain, at, copy_tree

PID = "C01"
IDX = [-2, -1, 0, 1, 2]
Leaf = int

WHICH = ["dict", "list"]
PARTS = [(f, w) for f in FAMILIES for w in WHICH]  # 18 concrete classes

VSHAPES_QUICK = [hlib.D1[0], hlib.D1[3], hlib.D1[6]]  # leaf, {p}, [x]
VSHAPES_THOROUGH = hlib.D2 + hlib.D3_SPINE


def build(which, depth, tkind, lv):
    """Document whose container at `path` has kind `tkind`; siblings everywhere."""
    T = {"p": lv.next()} if tkind == "dict" else [lv.next(), lv.next()]
    if depth == 0:
        return T, ()
    z = lv.next()
    if which == "dict":
        if depth == 1:
            return {"a": T, "b": z}, ("a",)
        if depth == 2:
            return {"a": [T, 7], "b": z}, ("a", 0)
        return {"a": [{"c": T, "d": 8}], "b": z}, ("a", 0, "c")
    if depth == 1:
        return [T, z], (0,)
    if depth == 2:
        return [{"a": T, "e": 7}, z], (0, "a")
    return [{"a": [T, 8]}, z], (0, "a", 0)


def maxdepth():
    return 3 if hlib.TIER == "thorough" else 2


def vshapes():
    return VSHAPES_THOROUGH if hlib.TIER == "thorough" else VSHAPES_QUICK


def run_op(op, target, a):
    try:
        return ("ok", op.fn(target, a))
    except hlib.Crash:
        raise
    except Exception as e:
        return ("exc", e)


def run_ref(op, target, a):
    try:
        return ("ok", op.ref(target, a))
    except Exception as e:
        return ("exc", e)


def step(depth: int, tk: int, opi: int, vs: int, i: int, j: int, x: int, y: int, z: int, v1: Leaf, v2: Leaf) -> bool:
    """
    post: _
    """
    env = get_env().reset()
    # partition = (class, handle depth); `depth` parameter is therefore not inspected
    fam, which = PARTS[hlib.PART % len(PARTS)]
    depth = hlib.PART // len(PARTS)
    tkind = pick(WHICH, tk)
    if tkind is None:
        return finish(False, True)
    if depth == 0 and tkind != which:
        return finish(False, True)
    op = pick(ops.mutators(tkind), opi)
    if op is None:
        return finish(False, True)
    # the index is decided by the solver, concrete afterwards (slice semantics are C03's)
    i = pick(IDX, i) if op.i else 0
    if i is None:
        return finish(False, True)
    j = i + 1
    # selectors an operation does not use are never inspected (no fork on them)
    shape = pick(vshapes(), vs) if op.v else vshapes()[0]
    if shape is None:
        return finish(False, True)
    doc, path = build(which, depth, tkind, Leaves(x, y, z))
    ref = copy_tree(doc)
    fam.write(env, "r", doc)
    root = fam.make(env, which, "r")
    target = root
    for k in path:
        target = target[k]
    a_lib = ops.A(v=fill(shape[1], Leaves(v1, v2)), w=v2, i=i, j=j)
    a_ref = ops.A(v=fill(shape[1], Leaves(v1, v2)), w=v2, i=i, j=j)
    r_lib = run_op(op, target, a_lib)
    r_ref = run_ref(op, at(ref, path), a_ref)
    if r_lib[0] == "exc" or r_ref[0] == "exc":
        # the call did not return: outside C01 (same-exception refinement is C03's)
        return finish(False, True)
    case(fam.cls(which).__name__, f"depth{depth}", tkind, op.name, shape[0], i)
    want = plain(ref)
    got = fam.read(env, "r")
    if got is MISSING or not is_plain(got) or not same_tree(got, want):
        return finish(True, fail(lambda: f"resource after {op.name} on {fam.cls(which).__name__} depth {depth}: {got!r}, reference {want!r}"))
    mem = root()
    if not same_tree(plain(mem), want):
        return finish(True, fail(lambda: f"root() after {op.name}: {mem!r}, reference {want!r}"))
    return finish(True, True)


def prog_parts():
    if hlib.TIER == "thorough":
        return [(hlib.FAM["JSON"], "dict"), (hlib.FAM["JSON"], "list"), (hlib.FAM["Redis"], "dict"), (hlib.FAM["Zarr"], "list"),
                (hlib.FAM["MongoDB"], "dict"), (hlib.FAM["BufferedJSON"], "list"), (hlib.FAM["MemoryBufferedJSONAttr"], "dict"), (hlib.FAM["JSONAttr"], "list")]
    return [(hlib.FAM["JSON"], "dict"), (hlib.FAM["JSON"], "list")]


def prog2(tk: int, op1: int, op2: int, vs: int, i: int, x: int, y: int, z: int, v1: Leaf, v2: Leaf) -> bool:
    """
    post: _
    """
    env = get_env().reset()
    i = pick([-1, 0, 1] if hlib.TIER == "thorough" else [0], i)
    if i is None:
        return finish(False, True)
    # partition = class x kind of the target container
    fam, which = prog_parts()[(hlib.PART // 2) % len(prog_parts())]
    tkind = WHICH[hlib.PART % 2]
    muts = ops.mutators(tkind)
    split = hlib.PART // (2 * len(prog_parts()))  # further split by first operation
    nsplit = max(1, hlib.NPARTS // (2 * len(prog_parts())))
    o1 = pick(muts[split::nsplit], op1)
    o2 = pick(muts, op2)
    if o1 is None or o2 is None:
        return finish(False, True)
    shape = pick(VSHAPES_QUICK[:2] if hlib.TIER == "thorough" else VSHAPES_QUICK[1:2], vs) if (o1.v or o2.v) else VSHAPES_QUICK[0]
    if shape is None:
        return finish(False, True)
    doc, path = build(which, 1, tkind, Leaves(x, y, z))
    ref = copy_tree(doc)
    fam.write(env, "r", doc)
    root = fam.make(env, which, "r")
    target = root
    for k in path:
        target = target[k]
    n = 0
    for o in (o1, o2):
        a_lib = ops.A(v=fill(shape[1], Leaves(v1, v2)), w=v2, i=i, j=i + 1)
        a_ref = ops.A(v=fill(shape[1], Leaves(v1, v2)), w=v2, i=i, j=i + 1)
        r_lib = run_op(o, target, a_lib)
        r_ref = run_ref(o, at(ref, path), a_ref)
        if r_lib[0] == "exc" or r_ref[0] == "exc":
            if r_lib[0] != r_ref[0]:
                return finish(False, True)
            continue
        n += 1
        want = plain(ref)
        got = fam.read(env, "r")
        if got is MISSING or not is_plain(got) or not same_tree(got, want):
            return finish(True, fail(lambda: f"resource after step {o.name} of ({o1.name},{o2.name}): {got!r}, reference {want!r}"))
    if n == 0:
        return finish(False, True)
    case(fam.cls(which).__name__, tkind, o1.name, o2.name, shape[0])
    return finish(True, True)


JSON_PARTS = [(f, w) for f in hlib.JSON_FAMILIES for w in WHICH]
CTX_FAULT = ["plain", "write-concern", "threading-off"]


def faulty(tk: int, opi: int, k: int, cx: int, x: int, y: int, z: int, v1: int) -> bool:
    """An I/O error at any file-system step of the call: if the mutator nevertheless
    RETURNS, the mutation must be in the file (a swallowed error is a silent loss).
    post: _
    """
    env = get_env().reset()
    fam, which = JSON_PARTS[hlib.PART % len(JSON_PARTS)]
    depth = (hlib.PART // len(JSON_PARTS)) % 2
    tkind = pick(WHICH, tk)
    ctx = pick(CTX_FAULT, cx)
    if tkind is None or ctx is None or (depth == 0 and tkind != which):
        return finish(False, True)
    op = pick(ops.mutators(tkind), opi)
    k = pick([0, 1, 2, 3, 4, 5, 6, 7], k)
    if op is None or k is None:
        return finish(False, True)
    cls = fam.cls(which)
    if ctx == "threading-off":
        cls.disable_multithreading()
    doc, path = build(which, depth, tkind, Leaves(x, y, z))
    ref = copy_tree(doc)
    fam.write(env, "r", doc)
    root = fam.make(env, which, "r", **({"write_concern": True} if ctx == "write-concern" else {}))
    target = root
    for kk in path:
        target = target[kk]
    a_lib = ops.A(v=v1, w=v1, i=0, j=1)
    a_ref = ops.A(v=v1, w=v1, i=0, j=1)
    env.fs.fault_at = env.fs.ops + k
    r_lib = run_op(op, target, a_lib)
    hit = env.fs.fault_at < env.fs.ops
    env.fs.fault_at = None
    retried = False
    if r_lib[0] == "exc":
        if not hit or not isinstance(r_lib[1], OSError):
            return finish(False, True)  # the call did not return (and not because of the fault)
        # the caller retries the same call once the fault is gone: THAT call returns, so the
        # mutation must be in the file (nothing may remember the failed attempt as done)
        r_lib = run_op(op, target, ops.A(v=v1, w=v1, i=0, j=1))
        retried = True
        if r_lib[0] == "exc":
            return finish(False, True)
    r_ref = run_ref(op, at(ref, path), a_ref)
    if r_ref[0] == "exc":
        return finish(False, True)
    case(cls.__name__, f"depth{depth}", tkind, op.name, ctx, k if hit else "no-fault", "retried" if retried else "returned")
    want = plain(ref)
    got = fam.read(env, "r")
    if got is MISSING or not is_plain(got) or not same_tree(got, want):
        return finish(True, fail(lambda: f"{cls.__name__} ({ctx}) depth {depth}: {op.name} {'failed with OSError at file-system operation #' + str(k) + ', was retried and then returned normally' if retried else 'returned normally although file-system operation #' + str(k) + ' of the call raised OSError'}; file holds {got!r}, reference {want!r} (fs log {env.fs.log[-6:]!r})"))
    leftovers = [n for n in env.listdir() if n.startswith("._")]
    return finish(True, True)


SRC = ["own-child", "other-collection-child", "other-collection-root", "other-family-child"]
PUT = {"dict": ["setitem_new", "setitem_replace", "update_map", "setdefault_new", "reset"], "list": ["append", "setitem", "insert", "extend", "iadd", "reset"]}


def synced_arg(si: int, pi: int, sk: int, x: int, y: int, v: int) -> bool:
    """The stored value is itself a synced node (taken from this or another collection):
    the destination must hold an independent copy that writes through to ITS backend.
    post: _
    """
    env = get_env().reset()
    fam, which = PARTS[hlib.PART % len(PARTS)]
    src = pick(SRC, si)
    put = pick(PUT[which], pi)
    skind = pick(WHICH, sk)
    if src is None or put is None or skind is None:
        return finish(False, True)
    cls = fam.cls(which)
    S = {"p": x, "n": {"q": y}} if skind == "dict" else [x, [y]]
    doc = {"a": copy_tree(S), "b": 1} if which == "dict" else [copy_tree(S), 1]
    ref = copy_tree(doc)
    fam.write(env, "r", doc)
    root = fam.make(env, which, "r")
    sfam = fam
    if src == "other-family-child":
        sfam = hlib.FAM["JSON"] if fam.name != "JSON" else hlib.FAM["Redis"]
    sdoc = {"a": copy_tree(S), "z": 0} if which == "dict" else [copy_tree(S), 0]
    sref = copy_tree(sdoc)
    if src != "own-child":
        sfam.write(env, "s", sdoc)
        sroot = sfam.make(env, which, "s")
    pos = "a" if which == "dict" else 0
    if src == "own-child":
        node, node_plain = root[pos], copy_tree(S)
    elif src == "other-collection-root":
        if skind != which:
            return finish(False, True)
        node, node_plain = sroot, copy_tree(sdoc)
    else:
        node, node_plain = sroot[pos], copy_tree(S)
    try:
        if put == "setitem_new":
            root["n"] = node
            ref["n"] = node_plain
            where = "n"
        elif put == "setitem_replace":
            root["b"] = node
            ref["b"] = node_plain
            where = "b"
        elif put == "update_map":
            root.update({"n": node})
            ref["n"] = node_plain
            where = "n"
        elif put == "setdefault_new":
            root.setdefault("n", node)
            ref["n"] = node_plain
            where = "n"
        elif put == "reset" and which == "dict":
            root.reset({"n": node, "b": 2})
            ref = {"n": node_plain, "b": 2}
            where = "n"
        elif put == "append":
            root.append(node)
            ref.append(node_plain)
            where = 2
        elif put == "setitem":
            root[1] = node
            ref[1] = node_plain
            where = 1
        elif put == "insert":
            root.insert(1, node)
            ref.insert(1, node_plain)
            where = 1
        elif put == "extend":
            root.extend([node])
            ref.extend([node_plain])
            where = 2
        elif put == "iadd":
            root += [node]
            ref += [node_plain]
            where = 2
        else:
            root.reset([node, 2])
            ref = [node_plain, 2]
            where = 0
    except hlib.Crash:
        raise
    except Exception as e:
        return finish(True, fail(lambda: f"{cls.__name__}: {put} of a synced {src} raised {e!r}"))
    case(cls.__name__, src, put, skind)
    label = f"{cls.__name__}: {put} of a synced node ({src}, {skind})"
    got = fam.read(env, "r")
    if got is MISSING or not is_plain(got) or not same_tree(got, plain(ref)):
        return finish(True, fail(lambda: f"{label}: resource {got!r}, reference {ref!r}"))
    # mutate THROUGH the destination, at depth: must land in the destination's backend only
    dest = root[where]
    dref = ref[where]
    if src == "other-collection-root":
        dest, dref = dest[pos], dref[pos]
    try:
        if skind == "dict":
            dest["n"]["q2"] = v
            dref["n"]["q2"] = v
            dest["top"] = v
            dref["top"] = v
        else:
            dest[1].append(v)
            dref[1].append(v)
            dest.append(v)
            dref.append(v)
    except hlib.Crash:
        raise
    except Exception as e:
        return finish(True, fail(lambda: f"{label}: mutation through the destination raised {e!r}"))
    got = fam.read(env, "r")
    if got is MISSING or not is_plain(got) or not same_tree(got, plain(ref)):
        return finish(True, fail(lambda: f"{label}, then a write through the destination: destination backend holds {got!r}, reference {ref!r}"))
    if src not in ("own-child",):
        sgot = sfam.read(env, "s")
        if sgot is MISSING or not same_tree(sgot, plain(sref)):
            return finish(True, fail(lambda: f"{label}, then a write through the destination: the SOURCE backend changed to {sgot!r}, was {sref!r}"))
    mem = root()
    if not same_tree(plain(mem), plain(ref)):
        return finish(True, fail(lambda: f"{label}: root() {mem!r}, reference {ref!r}"))
    return finish(True, True)


def plan(tier):
    if tier == "quick":
        return [
            {"fn": "step", "nparts": 3 * len(PARTS), "timeout": 300},
            {"fn": "prog2", "nparts": 16, "timeout": 300},
            {"fn": "faulty", "nparts": 2 * len(JSON_PARTS), "timeout": 300},
            {"fn": "synced_arg", "nparts": len(PARTS), "timeout": 300},
        ]
    return [
        {"fn": "step", "nparts": 4 * len(PARTS), "timeout": 1500},
        {"fn": "prog2", "nparts": 4 * 2 * 8, "timeout": 1500},
        {"fn": "faulty", "nparts": 2 * len(JSON_PARTS), "timeout": 1500},
        {"fn": "synced_arg", "nparts": len(PARTS), "timeout": 1500},
    ]


def smoke(tier):
    out = []
    n = 3 * len(PARTS)
    for part in range(0, n, 2):
        for tk in (0, 1):
            for opi in (0, 4, 9, 16):
                out.append(("step", (0, tk, opi, 1, 1, 0, 1, 2, 3, 5, 6), part, n))
    for part in range(len(PARTS)):
        for si in range(4):
            for pi in range(6):
                out.append(("synced_arg", (si, pi, (si + pi) % 2, 1, 2, 3), part, len(PARTS)))
    nf = 2 * len(JSON_PARTS)
    for part in range(nf):
        for k in range(6):
            out.append(("faulty", (part % 2, (k * 3 + part) % 17, k, k % 3, 1, 2, 3, 4), part, nf))
    out.append(("prog2", (0, 1, 8, 1, 0, 1, 2, 3, 5, 6), 0, 16))
    out.append(("prog2", (0, 2, 10, 0, 1, 1, 2, 3, 7, 4), 7, 16))
    return out


FUNCTIONS = [
    "synced_collections.data_types.synced_collection:_LoadAndSave.__enter__",
    "synced_collections.data_types.synced_collection:_LoadAndSave.__exit__",
    "synced_collections.data_types.synced_collection:SyncedCollection._save",
    "synced_collections.data_types.synced_collection:SyncedCollection._load",
    "synced_collections.data_types.synced_collection:SyncedCollection._from_base",
    "synced_collections.data_types.synced_collection:SyncedCollection.__delitem__",
    "synced_collections.data_types.synced_dict:SyncedDict.__setitem__",
    "synced_collections.data_types.synced_dict:SyncedDict._update",
    "synced_collections.data_types.synced_dict:SyncedDict.reset",
    "synced_collections.data_types.synced_dict:SyncedDict.clear",
    "synced_collections.data_types.synced_dict:SyncedDict.update",
    "synced_collections.data_types.synced_dict:SyncedDict.setdefault",
    "synced_collections.data_types.synced_dict:SyncedDict.pop",
    "synced_collections.data_types.synced_dict:SyncedDict.popitem",
    "synced_collections.data_types.synced_list:SyncedList.__setitem__",
    "synced_collections.data_types.synced_list:SyncedList._update",
    "synced_collections.data_types.synced_list:SyncedList.reset",
    "synced_collections.data_types.synced_list:SyncedList.clear",
    "synced_collections.data_types.synced_list:SyncedList.append",
    "synced_collections.data_types.synced_list:SyncedList.extend",
    "synced_collections.data_types.synced_list:SyncedList.insert",
    "synced_collections.data_types.synced_list:SyncedList.remove",
    "synced_collections.data_types.synced_list:SyncedList.__iadd__",
    "synced_collections.backends.collection_json:JSONCollection._save_to_resource",
    "synced_collections.backends.collection_json:JSONCollection._load_from_resource",
    "synced_collections.backends.collection_redis:RedisCollection._save_to_resource",
    "synced_collections.backends.collection_mongodb:MongoDBCollection._save_to_resource",
    "synced_collections.backends.collection_zarr:ZarrCollection._save_to_resource",
    "synced_collections.utils:default",
    "synced_collections.utils:SyncedCollectionJSONEncoder.default",
]
BOUNDS = {
    "quick": {"classes": 18, "handle_depth": "0..2", "mutators": "all 20 dict + 17 list table entries", "argument_shapes": [s[0] for s in VSHAPES_QUICK], "indices": "[-2,2] symbolic (target lists have 2 elements)", "leaves": "symbolic int (document) / symbolic int|str|bool|None (argument)", "programs": "2 steps, 2 classes"},
    "thorough": {"classes": 18, "handle_depth": "0..3", "mutators": "all", "argument_shapes": [s[0] for s in VSHAPES_THOROUGH], "indices": "[-2,2] symbolic (target lists have 2 elements)", "programs": "2 steps, 8 classes"},
}
ASSUMPTIONS = [
    "environment models of vf/env_model.py: POSIX-like file store, structural JSON codec (real SyncedCollectionJSONEncoder.default is called), fake Redis/MongoDB/Zarr stores (the only implementations available offline)",
    "keys are drawn from a concrete alphabet (p,q,a,b,...): outside validators and AttrDict the library never inspects a key (key-parametricity; validators are C11's, AttrDict routing is C18's)",
    "floats are not symbolic (CrossHair models them as reals)",
]
OUTSIDE = ["values deeper than 3 / wider than 2", "programs longer than 2 steps (covered by the inductive step from the in-sync state)", "real Redis/MongoDB/Zarr servers", "byte-level JSON encoding (stdlib json, trusted)"]
