"""C04 Writes through any handle never clobber changes made via other handles.

Engine A, bounded programs over four handles on one resource (two root objects and a
retained nested child of each) plus an outside writer.  After every step the resource
-- read independently of the library -- must equal one shared plain structure on which
the same steps were applied; at the end every still-attached handle must read its
position of that structure.  Handles are *not* read between steps (an observation
would refresh them and hide stale state)."""
from vf import hlib, ops, multi
from vf.hlib import FAM, Leaves, case, fail, finish, get_env, pick, copy_tree, known

PID = "C04"
WHICH = ["dict", "list"]


def _by_name(table, names):
    d = {o.name: o for o in table}
    return [d[n] for n in names]


QUICK_OPS = {
    "dict": ["setitem_new", "delitem", "clear", "reset", "update_two_new", "pop"],
    "list": ["append", "delitem", "clear", "reset", "insert", "pop"],
}
THOROUGH_OPS = {
    "dict": ["setitem_new", "setitem_replace", "delitem", "pop", "popitem", "clear", "update_map", "setdefault_new", "reset", "reset_empty"],
    "list": ["append", "setitem", "delitem", "insert", "extend", "pop", "clear", "reset", "reset_longer", "reverse"],
}
THREE_STEP_OPS = {"dict": ["setitem_new", "delitem", "clear"], "list": ["append", "delitem", "clear"]}


STEPS3 = False  # set by prog3 (thorough): 3-step programs on the JSON family with a smaller operation table


def optable(kind):
    if STEPS3:
        return _by_name(ops.mutators(kind), THREE_STEP_OPS[kind])
    names = (THOROUGH_OPS if hlib.TIER == "thorough" else QUICK_OPS)[kind]
    return _by_name(ops.mutators(kind), names)


def classes():
    if hlib.TIER == "thorough" and not STEPS3:
        return [FAM["JSON"], FAM["MemoryBufferedJSONAttr"], FAM["Redis"]]
    return [FAM["JSON"]]


HSEL = ["A", "B", "Ac", "Bc", "out"]


def prog(h1: int, o1: int, h2: int, o2: int, h3: int, o3: int, x: int, y: int, z: int, v: int, w: int) -> bool:
    """
    post: _
    """
    env = get_env().reset()
    cells = [(f, wh, ck) for f in classes() for wh in WHICH for ck in WHICH]
    fam, which, ckind = cells[hlib.PART % len(cells)]
    first = HSEL[(hlib.PART // len(cells)) % len(HSEL)]  # first handle fixed by the partition
    nsteps = 3 if STEPS3 else 2
    hs = [first, pick(HSEL, h2)] + ([pick(HSEL, h3)] if nsteps == 3 else [])
    os_ = [o1, o2, o3][:nsteps]
    if None in hs:
        return finish(False, True)
    T = {"p": x} if ckind == "dict" else [x, y]
    doc0 = {"a": T, "p": z} if which == "dict" else [T, z]
    T1 = {"p": y, "r": x} if ckind == "dict" else [y]
    doc1 = {"a": T1, "p": x} if which == "dict" else [T1, x]
    world = multi.World(env, fam, which, doc0, second=True)
    names = []
    args = (h1, o1, h2, o2, h3, o3, x, y, z, v, w)
    try:
        for h, osel in zip(hs, os_):
            if h == "out":
                alt = pick([doc0, doc1], osel)
                if alt is None:
                    return finish(False, True)
                world.outside(copy_tree(alt))
                names.append("out.same" if alt is doc0 else "out.other")
                continue
            if not world.att.get(h):
                return finish(False, True)
            op = pick(optable(world.kind(h)), osel)
            if op is None:
                return finish(False, True)
            names.append(f"{h}.{op.name}")
            world.mutate(h, op, ops.A(v=v, w=w, i=0, j=1), ops.A(v=v, w=w, i=0, j=1))
            good, got, want = world.resource_ok()
            if not good:
                nested = h in ("Ac", "Bc")
                if known(PID, {"op": op.name, "handle": "nested" if nested else "root", "step": len(names)}, args):
                    return finish(True, True)
                return finish(True, fail(lambda: f"{fam.cls(which).__name__} program {names}: resource {got!r}, one shared plain structure gives {want!r}"))
    except multi.Diverged as e:
        if known(PID, {"op": names[-1].split(".")[-1], "handle": "nested" if names[-1][1] == "c" else "root", "diverged": True}, args):
            return finish(True, True)
        return finish(True, fail(lambda: f"{fam.cls(which).__name__} program {names}: {e!r}"))
    case(fam.cls(which).__name__, ckind, *names)
    for h in world.attached():
        good, got, want = world.read_ok(h)
        if not good:
            if known(PID, {"final_read": h, "last": names[-1].split(".")[-1]}, args):
                return finish(True, True)
            return finish(True, fail(lambda: f"{fam.cls(which).__name__} after program {names}: {h}() returned {got!r}, shared structure position holds {want!r}"))
    return finish(True, True)


def prog3(h1: int, o1: int, h2: int, o2: int, h3: int, o3: int, x: int, y: int, z: int, v: int, w: int) -> bool:
    """Three-step programs (thorough tier).
    post: _
    """
    global STEPS3
    STEPS3 = True
    try:
        return prog(h1, o1, h2, o2, h3, o3, x, y, z, v, w)
    finally:
        STEPS3 = False


def plan(tier):
    if tier == "quick":
        return [{"fn": "prog", "nparts": 4 * len(HSEL), "timeout": 300}]
    return [{"fn": "prog", "nparts": 3 * 4 * len(HSEL), "timeout": 900}, {"fn": "prog3", "nparts": 4 * len(HSEL), "timeout": 900}]


def smoke(tier):
    out = []
    for part in range(20):
        for o1 in range(6):
            for h2 in range(5):
                out.append(("prog", (0, o1, h2, (o1 + h2) % 6, 0, 0, 1, 2, 3, 4, 5), part, 20))
    return out


FUNCTIONS = [
    "synced_collections.data_types.synced_collection:_LoadAndSave.__enter__",
    "synced_collections.data_types.synced_collection:SyncedCollection._load",
    "synced_collections.data_types.synced_collection:SyncedCollection._save",
    "synced_collections.data_types.synced_dict:SyncedDict._update",
    "synced_collections.data_types.synced_dict:SyncedDict.clear",
    "synced_collections.data_types.synced_dict:SyncedDict.reset",
    "synced_collections.data_types.synced_list:SyncedList._update",
    "synced_collections.data_types.synced_list:SyncedList.clear",
    "synced_collections.data_types.synced_list:SyncedList.reset",
]
BOUNDS = {
    "quick": {"classes": "JSONDict, JSONList roots x dict/list child", "handles": "2 root objects + a retained child of each + outside writer", "steps": 2, "mutators": QUICK_OPS, "leaves": "symbolic ints"},
    "thorough": {"prog": {"classes": "JSON, MemoryBufferedJSONAttr, Redis families", "steps": 2, "mutators": THOROUGH_OPS}, "prog3": {"classes": "JSON family", "steps": 3, "mutators": THREE_STEP_OPS}},
}
ASSUMPTIONS = [
    "environment models of vf/env_model.py",
    "attachedness of a child handle is tracked conservatively (any root-level mutation through the same parent that could move or replace the position detaches it); detached handles are never asserted on",
]
OUTSIDE = ["programs longer than 2 (3 thorough) steps", "children deeper than 1", "more than 2 root objects"]
