"""C15 Buffer size accounting is exact, bounded by capacity, and returns to zero.

Engine A, bounded programs over two files and three objects (two on one file) of one
buffered class: a context/capacity pattern (buffer_backend with no / tiny / large
capacity, nested overrides in both directions, set_buffer_capacity in the middle,
per-object contexts) with operation slots.  After every call: reported size ==
recomputation from the buffer's own entries, size <= capacity, size == 0 when no
context is active, capacity == what the context discipline says; at the end every file
holds the reference content (a forced flush loses nothing)."""
from vf import hlib, ops, bufprog
from vf.hlib import BUFFERED_FAMILIES, MISSING, case, fail, finish, get_env, pick, plain, eq_plain, copy_tree, known

PID = "C15"
WHICH = ["dict", "list"]
PARTS = [(f, w) for f in BUFFERED_FAMILIES for w in WHICH]

# B<c> enter backend with capacity c (N none, S tiny, T tiny+1, L large); E enter o0.buffered;
# C<c> set_buffer_capacity; X exit innermost; _ operation slot
PATTERNS = [
    "BN ___ X", "BS ___ X", "BL ___ X", "BS _ BL __ X X", "BL _ BS __ X X", "BT __ BS _ X X", "E ___ X", "BN _ CS __ X", "CS BN ___ X CD",
    "BL __ X _", "E _ BS __ X X", "BS _ E __ X X", "BN __ X BS _ X", "CT BN ___ X CD", "BL _ CS _ CL _ X",
]
# f0 is shared by o0 and o0b (reads/writes only); clear/reset -- the accounting paths that save
# without a load -- go to f1, which has a single object (lost updates between several objects
# on one file are C06's subject, not the accounting's)
SLOTS = ["write-o0", "write-long-o0", "write-o1", "write-o0b", "read-o0", "read-o0b", "clear-o1", "reset-o1", "outside-o1", "iofault-o1", "read-o1", "nested-write-o0"]


def nslots():
    return 12 if hlib.TIER == "thorough" else 10


def parts():
    return PARTS if hlib.TIER == "thorough" else [p for p in PARTS if not p[0].attr]


def prog(pi: int, s1: int, s2: int, s3: int, s4: int) -> bool:
    """
    post: _
    """
    env = get_env().reset()
    P = parts()
    fam, which = P[hlib.PART % len(P)]
    nh = max(1, hlib.NPARTS // len(P))
    pattern = pick(PATTERNS[(hlib.PART // len(P))::nh], pi)
    n = nslots()
    sel = [pick(SLOTS[:n], s) for s in (s1, s2, s3)]
    if pattern is None or None in sel:
        return finish(False, True)
    return ops.native(_run, env, fam, which, pattern, sel, (pi, s1, s2, s3, s4))


def _slot(w, which, act, on, o, ref, val, state):
    """One operation slot; returns a failure text for a wrong read, else None."""
    if act == "write":
        if which == "dict":
            o[f"k{val}"] = val
            ref[f"k{val}"] = val
        else:
            o.append(val)
            ref.append(val)
    elif act == "write-long":
        big = "x" * 40
        if which == "dict":
            o["big"] = big
            ref["big"] = big
        else:
            o.append(big)
            ref.append(big)
    elif act == "nested-write":
        k = "a" if which == "dict" else 0
        if isinstance(ref, (dict, list)) and ((which == "dict" and k in ref) or (which == "list" and len(ref) > 0)) and isinstance(ref[k], dict):
            o[k][f"n{val}"] = val
            ref[k][f"n{val}"] = val
    elif act == "read":
        got = o()
        if not (state["outside"] and on == "o1") and not eq_plain(got, plain(ref)):
            return f"{on}() returned {got!r}, reference {ref!r}"
    elif act == "clear":
        o.clear()
        ref.clear()
    elif act == "reset":
        new = {"r": val} if which == "dict" else [val]
        o.reset(copy_tree(new))
        ref.clear()
        if which == "dict":
            ref.update(new)
        else:
            ref.extend(new)
    return None


def _run(env, fam, which, pattern, sel, args):
    w = bufprog.BufWorld(env, fam, which)
    cls = w.cls
    for i, fn in enumerate(("f0", "f1")):
        w.add_file(fn, {"p": i, "a": {"p": i}} if which == "dict" else [{"p": i}, i])
    w.add_obj("o0", "f0")
    w.add_obj("o1", "f1")
    w.add_obj("o0b", "f0")
    default = cls.get_buffer_capacity()
    caps = {"N": None, "S": 0, "T": 1, "L": default * 4, "D": default}
    cur = [default]  # capacity according to the documented discipline
    saved = []  # per open context: capacity to restore at its exit (None: nothing)
    names = []
    slot = 0
    val = 20

    def check(after):
        size, recomputed, entries = w.buffer_state()
        cap = cls.get_buffer_capacity()
        if size != recomputed:
            return f"after {after}: reported size {size}, recomputed from the buffer entries {recomputed}"
        if size > cap:
            return f"after {after}: size {size} exceeds the capacity {cap}"
        if not w.stack and size != 0:
            return f"after {after}: no buffered context is active but the size is {size}"
        if not w.stack and cls.backend_is_buffered():
            return f"after {after}: no buffered context is active but the backend counts as buffered"
        if cap != cur[0]:
            return f"after {after}: capacity is {cap}, the context discipline says {cur[0]}"
        return None

    from synced_collections.errors import BufferedError, MetadataError

    state = {"outside": False, "errored": False}

    def legit(e):
        """A flush may refuse to overwrite a file changed outside (C07): the accounting
        must stay exact all the same."""
        if state["outside"] and isinstance(e, (BufferedError, MetadataError)):
            state["errored"] = True
            return True
        if state.get("iofault") and isinstance(e, OSError):
            state["errored"] = True
            return True
        return False

    toks = pattern.split()
    flat = []
    for t in toks:
        if set(t) == {"_"}:
            flat.extend(["_"] * len(t))
        else:
            flat.append(t)
    try:
        for t in flat:
            if t[0] == "B":
                c = caps[t[1]]
                names.append(f"backend({t[1]})")
                try:
                    w.enter_backend(c)  # a smaller capacity flushes at once, which may be refused
                except Exception as e:
                    if not legit(e):
                        raise
                    # the with statement failed: no context was entered, nothing to exit later
                    bad = check(names[-1] + " (refused)")
                    if bad:
                        return finish(True, fail(lambda: f"{cls.__name__} {names}: {bad}"))
                    if not any(k == "backend" for k, _, _ in w.stack) and cls.backend_is_buffered():
                        return finish(True, fail(lambda: f"{cls.__name__} {names}: entering the backend-wide context raised, yet the backend still counts as buffered"))
                    return finish(True, True)
                saved.append(cur[0] if c is not None else None)
                if c is not None:
                    cur[0] = c
            elif t == "E":
                w.enter_obj("o0")
                saved.append(None)
                names.append("o0.buffered")
            elif t[0] == "C":
                names.append(f"set_capacity({t[1]})")
                cur[0] = caps[t[1]]
                try:
                    cls.set_buffer_capacity(caps[t[1]])
                except Exception as e:
                    if not legit(e):
                        raise
            elif t == "X":
                try:
                    kind, _ = w.exit_innermost()
                except Exception as e:
                    if not legit(e):
                        raise
                sv = saved.pop()
                if sv is not None:
                    cur[0] = sv
                names.append("exit")
            else:
                if slot >= len(sel):
                    continue
                s = sel[slot]
                slot += 1
                val += 1
                names.append(s)
                act, _, on = s.rpartition("-")
                if on == "o0b" and any(k == "object" for k, _, _ in w.stack) and not any(k == "backend" for k, _, _ in w.stack):
                    return finish(False, True)  # o0b would be in another buffering state than o0 (unsupported)
                o = w.objs[on]
                ref = w.ref[w.file_of[on]]
                if act == "outside":
                    env.write_doc(w.file_of[on], {"out": val} if which == "dict" else [val, "out"])
                    state["outside"] = True
                    continue
                if act == "iofault":
                    # the next write to this object's file fails with an I/O error (once)
                    env.fs.fault_write_of = w.file_of[on]
                    state["outside"] = True  # from here on a flush may legitimately report a problem with f1
                    state["iofault"] = True
                    continue
                try:
                    bad_read = _slot(w, which, act, on, o, ref, val, state)
                except hlib.Crash:
                    raise
                except Exception as e:
                    if not legit(e):
                        raise
                    bad_read = None
                if bad_read:
                    return finish(True, fail(lambda: f"{cls.__name__} {names}: {bad_read}"))
                bad = check(names[-1])
                if bad:
                    if known(PID, {"family": fam.buffered, "what": bad.split(":")[1].split()[0]}, args):
                        return finish(True, True)
                    return finish(True, fail(lambda: f"{cls.__name__} {names}: {bad}"))
                continue
            bad = check(names[-1])
            if bad:
                if known(PID, {"family": fam.buffered, "what": bad.split(":")[1].split()[0]}, args):
                    return finish(True, True)
                return finish(True, fail(lambda: f"{cls.__name__} {names}: {bad}"))
        while w.stack:
            try:
                w.exit_innermost()
            except Exception as e:
                if not legit(e):
                    raise
            sv = saved.pop()
            if sv is not None:
                cur[0] = sv
            names.append("exit")
            bad = check("final exit")
            if bad:
                return finish(True, fail(lambda: f"{cls.__name__} {names}: {bad}"))
    except hlib.Crash:
        raise
    except Exception as e:
        return finish(True, fail(lambda: f"{cls.__name__} {names}: raised {e!r}"))
    case(cls.__name__, pattern, *names)
    if state["errored"]:
        return finish(True, True)  # contents after a refused flush are C07's subject
    for fn in (("f0",) if state["outside"] else ("f0", "f1")):
        good, got, want = w.file_ok(fn)
        if not good:
            return finish(True, fail(lambda: f"{cls.__name__} {names}: {fn} holds {got!r}, reference {want!r} (a forced flush must lose nothing)"))
    return finish(True, True)


def plan(tier):
    if tier == "quick":
        return [{"fn": "prog", "nparts": 4 * 5, "timeout": 300}]
    return [{"fn": "prog", "nparts": len(PARTS) * 15, "timeout": 900}]


def smoke(tier):
    out = []
    for part in range(20):
        for pi in range(3):
            for s in range(0, 10, 2):
                out.append(("prog", (pi, s, (s + 3) % 10, (s + 6) % 10, 0), part, 20))
    return out


FUNCTIONS = [
    "synced_collections.buffers.file_buffered_collection:FileBufferedCollection.set_buffer_capacity",
    "synced_collections.buffers.file_buffered_collection:FileBufferedCollection._flush_buffer",
    "synced_collections.buffers.file_buffered_collection:_FileBufferedContext.__enter__",
    "synced_collections.buffers.file_buffered_collection:_FileBufferedContext.__exit__",
    "synced_collections.buffers.serialized_file_buffered_collection:SerializedFileBufferedCollection._save_to_buffer",
    "synced_collections.buffers.serialized_file_buffered_collection:SerializedFileBufferedCollection._load_from_buffer",
    "synced_collections.buffers.serialized_file_buffered_collection:SerializedFileBufferedCollection._initialize_data_in_buffer",
    "synced_collections.buffers.serialized_file_buffered_collection:SerializedFileBufferedCollection._flush",
    "synced_collections.buffers.memory_buffered_collection:SharedMemoryFileBufferedCollection._save_to_buffer",
    "synced_collections.buffers.memory_buffered_collection:SharedMemoryFileBufferedCollection._flush",
]
BOUNDS = {"quick": {"classes": "BufferedJSON / MemoryBufferedJSON dict and list", "files": 2, "objects": 3, "patterns": PATTERNS, "capacities": {"S": 0, "T": 1, "L": "4 x default", "N": "not given"}, "slots": 3, "slot_operations": SLOTS[:8]},
          "thorough": {"classes": 8, "slots": 3, "slot_operations": SLOTS}}
ASSUMPTIONS = ["the recomputation reads the class's own buffer entries (sum of len(contents) / number of modified entries): 'the observable buffered files' of the statement", "tiny capacities are 0 and 1 so that the model's size measure and real byte counts agree on every comparison with the capacity", "finite program space explored exhaustively through the solver's path tree; decided programs run natively"]
OUTSIDE = ["capacities between 2 bytes and one document", "more than 3 operations"]
