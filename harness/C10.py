"""C10 No operation leaks a lock; no interleaving deadlocks; filename change.

(a) `leak`   -- Engine A with a symbolic fault: corrupt content at load, OSError at a
              symbolic FS operation index during load or save, a rejected value, a
              serialisation failure.  Afterwards every lock of the class must be free
              (model: owner counts; replay: a second real thread acquires every lock).
(c) `rename` -- Engine A: two objects on one file, one is re-pointed; further
              operations on either must work and each file follows its reference.
(b) deadlock -- Engine C (vf/order_smt.py), see harness/C10b.py."""
import threading

from vf import hlib, ops
from vf.hlib import FAM, JSON_FAMILIES, MISSING, CORRUPT, Crash, case, fail, finish, get_env, pick, same_tree, copy_tree, eq_plain, known

PID = "C10"
WHICH = ["dict", "list"]
FAULTS = ["corrupt-load", "oserror", "rejected-value", "dumps-fault"]
CTX = ["none", "object-buffered", "backend-buffered"]


def class_locks(cls):
    out = []
    for c in cls.__mro__:
        d = c.__dict__
        for k in ("_cls_lock", "_BUFFER_LOCK"):
            if k in d:
                out.append((f"{c.__name__}.{k}", d[k]))
        if "_locks" in d and isinstance(d["_locks"], dict):
            for name, l in d["_locks"].items():
                out.append((f"{c.__name__}._locks[{name!r}]", l))
    return out


def leaked_locks(env, cls):
    """Names of locks another thread cannot take."""
    if env.mode == "model":
        return [n for n, l in class_locks(cls) if getattr(l, "count", 0) != 0] + [f"model-lock#{i}" for i, l in enumerate(env.locks_held()) if all(l is not x for _, x in class_locks(cls))]
    bad = []

    def probe():
        for n, l in class_locks(cls):
            if hasattr(l, "acquire"):
                if l.acquire(timeout=1.0):
                    l.release()
                else:
                    bad.append(n)

    t = threading.Thread(target=probe)
    t.start()
    t.join(30)
    if t.is_alive():
        bad.append("<probe thread stuck>")
    return bad


QUICK_OPS = {
    "dict": ["setitem_new", "delitem", "pop", "popitem", "clear", "reset", "update_map", "setdefault_new", "getitem", "call", "len"],
    "list": ["append", "setitem", "delitem", "insert", "extend", "clear", "reset", "remove", "getitem", "call"],
}


def optable(kind):
    table = ops.mutators(kind) + ops.readers(kind)
    if hlib.TIER == "thorough":
        return [o for o in table if not o.concrete]
    d = {}
    for o in table:
        d.setdefault(o.name, o)
    return [d[n] for n in QUICK_OPS[kind]]


class NotJSON:
    pass


def leak(ti: int, opi: int, fi: int, ci: int, k: int, x: int, v: int) -> bool:
    """
    post: _
    """
    env = get_env().reset()
    fams = JSON_FAMILIES
    fam = fams[hlib.PART % len(fams)]
    which = WHICH[(hlib.PART // len(fams)) % 2]
    fault = FAULTS[(hlib.PART // (2 * len(fams))) % len(FAULTS)]  # fault kind fixed by the partition
    target = pick(["root", "child"], ti)
    ctx = pick(CTX if fam.buffered else CTX[:1], ci)
    k = pick(list(range(8)), k) if fault == "oserror" else 0
    if target is None or ctx is None or k is None:
        return finish(False, True)
    tkind = which if target == "root" else "dict"
    op = pick(optable(tkind), opi)
    if op is None:
        return finish(False, True)
    cls = fam.cls(which)
    doc = {"p": x, "a": {"p": x}} if which == "dict" else [x, {"p": x}]
    env.write_doc("f", doc)
    obj = fam.make(env, which, "f")
    t = obj if target == "root" else obj["a" if which == "dict" else 1]
    val = NotJSON() if fault == "rejected-value" else v
    if fault == "rejected-value" and not op.v:
        return finish(False, True)
    a = ops.A(v=val, w=v, i=0, j=1)
    raised = None

    def run():
        if fault == "corrupt-load":
            env.write_corrupt("f")
        elif fault == "oserror":
            env.fs.fault_at = env.fs.ops + k
        elif fault == "dumps-fault":
            env.dumps_fault_at = env.codec_calls
        return op.fn(t, a)

    try:
        if ctx == "none":
            run()
        elif ctx == "object-buffered":
            with obj.buffered:
                run()
        else:
            with cls.buffer_backend():
                run()
    except Crash:
        raise
    except Exception as e:
        raised = e
    env.fs.fault_at = None
    env.dumps_fault_at = None
    case(cls.__name__, target, op.name, fault, ctx, type(raised).__name__)
    bad = leaked_locks(env, cls)
    if bad:
        fp = {"part": "leak", "fault": fault, "raised": raised is not None, "ctx": ctx}
        if known(PID, fp, (ti, opi, fi, ci, k, x, v)):
            return finish(True, True)
        return finish(True, fail(lambda: f"{cls.__name__} {target}.{op.name} under {fault}@{k} in ctx {ctx} raised {raised!r}; locks another thread cannot take afterwards: {bad}"))
    if bool(obj._suspend_sync):
        return finish(True, fail(lambda: f"{cls.__name__} {target}.{op.name} under {fault}@{k} raised {raised!r}: synchronisation left suspended"))
    return finish(True, True)


RTOK = ["B.write", "A.write", "B.read", "A.read", "B.write-child", "A.rename-back"]


def rename(t1: int, t2: int, thr: int, x: int, v: int) -> bool:
    """
    post: _
    """
    env = get_env().reset()
    fams = JSON_FAMILIES
    fam = fams[hlib.PART % len(fams)]
    which = WHICH[(hlib.PART // len(fams)) % 2]
    toks = [pick(RTOK, t1), pick(RTOK, t2)]
    threading_on = pick([True, False], thr)
    if None in toks or threading_on is None:
        return finish(False, True)
    cls = fam.cls(which)
    if not threading_on:
        cls.disable_multithreading()
    doc = {"p": x, "a": {"p": x}} if which == "dict" else [x, {"p": x}]
    env.write_doc("f", doc)
    A = fam.make(env, which, "f")
    B = fam.make(env, which, "f")
    refs = {"f": copy_tree(doc), "g": copy_tree(doc)}
    A()
    B()
    where = {"A": "g", "B": "f"}
    names = ["A.filename=g"]
    try:
        A.filename = env.path("g")
        for t in toks:
            names.append(t)
            who, what = t.split(".")
            o = A if who == "A" else B
            r = refs[where[who]]
            if what == "write":
                if which == "dict":
                    o["q"] = v
                    r["q"] = v
                else:
                    o.append(v)
                    r.append(v)
            elif what == "write-child":
                o["a" if which == "dict" else 1]["z"] = v
                r["a" if which == "dict" else 1]["z"] = v
            elif what == "read":
                got = o()
                if where[who] == "f" or env.read_doc("g") is not MISSING:
                    if not eq_plain(got, r):
                        return finish(True, fail(lambda: f"{cls.__name__} {names}: {who}() returned {got!r}, expected {r!r}"))
            elif what == "rename-back":
                A.filename = env.path("f")
                where["A"] = "f"
                refs["g"] = None
    except Crash:
        raise
    except Exception as e:
        fp = {"part": "filename", "raised": type(e).__name__}
        if known(PID, fp, (t1, t2, thr, x, v)):
            return finish(True, True)
        return finish(True, fail(lambda: f"{cls.__name__} (threading {'on' if threading_on else 'off'}) {names}: raised {e!r}"))
    case(cls.__name__, threading_on, *names)
    got = env.read_doc("f")
    if got is CORRUPT or got is MISSING or not same_tree(got, refs["f"]):
        return finish(True, fail(lambda: f"{cls.__name__} {names}: old file holds {got!r}, expected {refs['f']!r}"))
    gg = env.read_doc("g")
    if gg is not MISSING and refs["g"] is not None and where["A"] == "g" and not same_tree(gg, refs["g"]):
        return finish(True, fail(lambda: f"{cls.__name__} {names}: new file holds {gg!r}, expected {refs['g']!r}"))
    bad = leaked_locks(env, cls)
    return finish(True, not bad or fail(lambda: f"{cls.__name__} {names}: locks still held {bad}"))


def plan(tier):
    t = 300 if tier == "quick" else 1500
    return [
        {"fn": "leak", "nparts": 48, "timeout": t},
        {"fn": "rename", "nparts": 12, "timeout": t},
    ]


def smoke(tier):
    out = []
    for part in range(12):
        for opi in (0, 2, 4, 5, 8, 9):
            for fi in range(4):
                out.append(("leak", (part % 2, opi, fi, part % 3, opi % 5, 1, 2), part + 12 * fi, 48))
        for t1 in range(6):
            out.append(("rename", (t1, (t1 + part) % 6, part % 2, 1, 2), part, 12))
    return out


FUNCTIONS = [
    "synced_collections.data_types.synced_collection:_LoadAndSave.__enter__",
    "synced_collections.data_types.synced_collection:_LoadAndSave.__exit__",
    "synced_collections.buffers.file_buffered_collection:_BufferedLoadAndSave.__enter__",
    "synced_collections.buffers.file_buffered_collection:_BufferedLoadAndSave.__exit__",
    "synced_collections.backends.collection_json:JSONCollection.filename",
    "synced_collections.data_types.synced_collection:SyncedCollection.__init__",
    "synced_collections.buffers.file_buffered_collection:FileBufferedCollection._load_from_buffer",
    "synced_collections.buffers.file_buffered_collection:FileBufferedCollection._flush_buffer",
]
BOUNDS = {"quick": {"classes": "6 JSON families x dict/list (the only classes with locks)", "operations": "every table mutator and reader on the root and on a nested child", "faults": FAULTS, "oserror_points": "FS operation index 0..7 of the call (reads, stats and writes)", "quick_operations": QUICK_OPS, "contexts": CTX, "filename_programs": "rename + 2 tokens over " + str(RTOK) + ", threading on/off"}}
BOUNDS["thorough"] = BOUNDS["quick"]
ASSUMPTIONS = ["LockModel: single-threaded owner counts standing for RLocks; the replay uses real RLocks and a second real thread that must acquire every lock of the class within 1 s", "environment models of vf/env_model.py"]
OUTSIDE = ["faults raised by something other than the file system, the codec or validation", "deadlocks (part b, Engine C)"]


def main(tier, seed):
    """Engine A parts (a), (c) and Engine C part (b), one evidence file."""
    import harness.C10 as me
    import harness.C10b as b
    from vf import run as vrun, conc_run
    import time

    t0 = time.time()
    res = vrun.verify_A(me, tier, seed)
    c = conc_run.run(PID, tier, seed, b.specs(tier), me, b.fingerprint, emit=False)
    for line in c["lines"]:
        print(line)
    res["wall_s"] = round(time.time() - t0, 2)
    hang_only = {k: v for k, v in c["coverage"].items() if k in ("programs", "verdict_counts", "solver_queries", "solver_seconds", "traces_validated_against_impl", "known_findings_hit", "unresolved_candidates", "samples", "verdict")}
    code_a = vrun.finish(res, me, extra_cov={"engine_C_deadlock_part": hang_only})
    return max(code_a, c["code"]) if 1 not in (code_a, c["code"]) else 1
