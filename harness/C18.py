"""C18 Nested containers keep the root's family; attribute access equals item access.

Engine B (vf/kernel_smt.py): `__getattr__/__setattr__/__delattr__` as found along the MRO
of every attribute-access dict class are translated from their current AST into z3 over an
unbounded symbolic key string; queries decide, for ALL strings, that a key is routed to the
object iff it is protected or a dunder, to item access otherwise (key and value passed on
unchanged, missing key -> AttributeError), and that every name the classes of the MRO
store on `self` (AST scan) or expose as a settable property is routed to the object.

Engine A (CrossHair): (family) one step from an arbitrary old value to an arbitrary new
container through every way a container can arrive (reload after an outside/second-object
write, item/slice assignment, update, setdefault, reset, constructor data, append, extend,
insert, +=), then the representation invariant (every node is the family's dict/list class
rooted at the root) and a write through the deepest new container must persist;
(attr_item) attribute-syntax programs against item-syntax programs on twins for the key
sets introspected from the class, at nesting depth 0..3."""
import ast
import inspect
import sys
import time

from vf import hlib, ops
from vf.hlib import FAMILIES, D1, D2, Leaves, MISSING, case, fail, fill, finish, get_env, pick, plain, eq_plain, copy_tree, kind_of, same_tree, is_plain, at

PID = "C18"
WHICH = ["dict", "list"]
PARTS = [(f, w) for f in FAMILIES for w in WHICH]
ATTR_FAMS = [f for f in FAMILIES if f.attr]

# ======================================================================================
# Engine A: family of nested containers
# ======================================================================================
OLD_SHAPES = [D1[0], D1[1], D1[3], D1[6]]  # leaf, null, {p}, [x]
NEW_SHAPES = [s for s in D2 if isinstance(s[1], (dict, list)) and s[1] not in ({}, [])] + [("{}", {}), ("[]", [])]
HOWS = {
    "dict": ["outside-reload", "second-object", "setitem", "setitem_new", "update_map", "update_kwargs", "setdefault_new", "reset", "ctor-data", "buffered-setitem", "update_pairs", "setitem-synced"],
    "list": ["outside-reload", "second-object", "setitem", "setslice", "append", "extend", "insert", "iadd", "reset", "ctor-data", "buffered-setitem", "setitem-synced"],
}


def deepest_container(tree, path=()):
    """Path to a deepest container of a plain tree (first one found)."""
    best = path
    items = tree.items() if isinstance(tree, dict) else enumerate(tree)
    for k, v in items:
        if isinstance(v, (dict, list)):
            p = deepest_container(v, path + (k,))
            if len(p) > len(best):
                best = p
    return best


QUICK_NEW = ["{p}", "[x]", "{p:{p}}", "{p:[x]}", "[{p}]", "[[x]]", "{}", "[]"]


def new_shapes():
    if hlib.TIER == "thorough":
        return NEW_SHAPES
    return [s for s in NEW_SHAPES if s[0] in QUICK_NEW]


def family(ok: int, nk: int, hw: int, x: int, x2: int) -> bool:
    """
    post: _
    """
    env = get_env().reset()
    fam, which = PARTS[hlib.PART % len(PARTS)]
    y, y2 = 11, 12
    so = pick(OLD_SHAPES, ok)
    sn = pick(new_shapes(), nk)
    how = pick(HOWS[which], hw)
    if so is None or sn is None or how is None:
        return finish(False, True)
    if how == "buffered-setitem" and not fam.buffered:
        return finish(False, True)
    cls = fam.cls(which)
    V_old = fill(so[1], Leaves(x, y))
    V_new = fill(sn[1], Leaves(x2, y2))
    pos = "a" if which == "dict" else 0
    doc = {"a": V_old, "b": 5} if which == "dict" else [V_old, 5]
    ref = copy_tree(doc)
    fam.write(env, "r", doc)
    obj = fam.make(env, which, "r")
    obj()  # memory certainly holds the old document
    where = pos
    try:
        if how == "outside-reload":
            ref[pos] = copy_tree(V_new)
            fam.write(env, "r", ref)
            obj()
        elif how == "second-object":
            other = fam.make(env, which, "r")
            other[pos] = copy_tree(V_new)
            ref[pos] = copy_tree(V_new)
            obj()
        elif how == "setitem-synced":
            # the value is a synced node taken from ANOTHER collection of the same family
            fam.write(env, "src", {"c": copy_tree(V_new)})
            src = fam.make(env, "dict", "src")
            obj[pos] = src["c"]
            ref[pos] = copy_tree(V_new)
        elif how == "setitem":
            obj[pos] = copy_tree(V_new)
            ref[pos] = copy_tree(V_new)
        elif how == "buffered-setitem":
            with obj.buffered:
                obj[pos] = copy_tree(V_new)
                obj()
            ref[pos] = copy_tree(V_new)
        elif how == "setitem_new":
            obj["n"] = copy_tree(V_new)
            ref["n"] = copy_tree(V_new)
            where = "n"
        elif how == "update_map":
            obj.update({pos: copy_tree(V_new)})
            ref[pos] = copy_tree(V_new)
        elif how == "update_pairs":
            obj.update([(pos, copy_tree(V_new))])
            ref[pos] = copy_tree(V_new)
        elif how == "update_kwargs":
            obj.update(a=copy_tree(V_new))
            ref[pos] = copy_tree(V_new)
        elif how == "setdefault_new":
            obj.setdefault("n", copy_tree(V_new))
            ref["n"] = copy_tree(V_new)
            where = "n"
        elif how == "reset":
            ref[pos] = copy_tree(V_new)
            obj.reset(copy_tree(ref))
        elif how == "ctor-data":
            ref[pos] = copy_tree(V_new)
            obj = fam.make(env, which, "r2", data=copy_tree(ref))
        elif how == "setslice":
            obj[0:1] = [copy_tree(V_new)]
            ref[0:1] = [copy_tree(V_new)]
        elif how == "append":
            obj.append(copy_tree(V_new))
            ref.append(copy_tree(V_new))
            where = 2
        elif how == "extend":
            obj.extend([copy_tree(V_new)])
            ref.extend([copy_tree(V_new)])
            where = 2
        elif how == "insert":
            obj.insert(0, copy_tree(V_new))
            ref.insert(0, copy_tree(V_new))
        elif how == "iadd":
            obj += [copy_tree(V_new)]
            ref += [copy_tree(V_new)]
            where = 2
    except hlib.Crash:
        raise
    except Exception as e:
        return finish(True, fail(lambda: f"{cls.__name__} {how} {so[0]} -> {sn[0]}: raised {e!r}"))
    res = "r2" if how == "ctor-data" else "r"
    case(cls.__name__, how, so[0], sn[0])
    got = obj()
    if not same_tree(got, ref):
        return finish(True, fail(lambda: f"{cls.__name__} {how} {so[0]} -> {sn[0]}: content {got!r}, expected {ref!r}"))
    bad = hlib.check_inv(obj, fam)
    if bad:
        return finish(True, fail(lambda: f"{cls.__name__} after {how} ({V_old!r} -> {V_new!r}): {bad}"))
    # a write through the deepest new container must persist
    sub = deepest_container(ref[where], (where,))
    h = obj
    for k in sub:
        h = h[k]
    target = at(ref, sub)
    want_cls = fam.D if isinstance(target, dict) else fam.L
    if type(h) is not want_cls:
        return finish(True, fail(lambda: f"{cls.__name__} after {how}: handle at {sub} is {type(h).__name__}, want {want_cls.__name__}"))
    try:
        if isinstance(target, dict):
            if fam.attr:
                SA(h, "zz", 7)
            else:
                h["zz"] = 7
            target["zz"] = 7
        else:
            h.append(7)
            target.append(7)
    except hlib.Crash:
        raise
    except Exception as e:
        return finish(True, fail(lambda: f"{cls.__name__} after {how}: write through the container at {sub} raised {e!r}"))
    stored = fam.read(env, res)
    if stored is MISSING or not is_plain(stored) or not same_tree(stored, ref):
        return finish(True, fail(lambda: f"{cls.__name__} after {how} ({V_old!r} -> {V_new!r}): write through the container at {sub} did not persist: backend {stored!r}, expected {ref!r}"))
    if fam.attr and isinstance(target, dict):
        try:
            if not (GA(h, "zz") == 7):
                return finish(True, fail(lambda: f"attribute read at {sub} returned {GA(h, 'zz')!r}"))
        except Exception as e:
            return finish(True, fail(lambda: f"attribute read at {sub} raised {e!r}"))
    return finish(True, True)


# ======================================================================================
# Engine A: attribute syntax vs item syntax
# ======================================================================================
POSITIONS = ["root", "in-dict", "in-list", "depth3", "list-root"]


def attr_classes():
    return [f for f in ATTR_FAMS]


def attr_cells():
    return [(f, p) for f in ATTR_FAMS for p in POSITIONS]


def key_sets(cls):
    """Key strings introspected from the class under test."""
    prot = sorted(cls._PROTECTED_KEYS)
    public = sorted(n for n in dir(cls) if not n.startswith("_") and n not in cls._PROTECTED_KEYS)
    dunder = ["__dict__", "__class__", "__x__", "__len__", "__getitem__", "__", "___"]
    free = ["k", "_x", "x_", "_", "_x_", "class", "not an identifier", "1", "", "K", "data", "_protected", "é", "_data_", "x__"]
    private = sorted(n for n in dir(cls) if n.startswith("_") and not n.startswith("__") and n not in cls._PROTECTED_KEYS)[:4]
    keys = []
    for group, names in (("protected", prot), ("public", public), ("dunder", dunder), ("free", free), ("private", private)):
        for n in names:
            keys.append((group, n))
    return keys


def category(cls, k):
    if k in cls._PROTECTED_KEYS:
        return "protected"
    if k.startswith("__"):
        return "dunder"
    if hasattr(cls, k):
        return "classattr"
    return "free"


AOPS = ["get_present", "get_missing", "set_new", "set_replace", "set_container", "del_present", "del_missing", "item_store_then_attr", "get_after_other_deleted", "get_after_other_retyped"]


def build(fam, env, position, res, key, present, x):
    """A collection on resource `res` holding an attribute-access dict at `position`; the
    dict holds {"s": x} plus (if present) {key: x}.  Returns (root, target, ref_root, ref_target)."""
    inner = {"s": x}
    if present:
        inner[key] = x
    if position == "root":
        doc = inner
    elif position == "in-dict":
        doc = {"a": inner, "b": 1}
    elif position == "in-list":
        doc = {"l": [0, inner]}
    elif position == "depth3":
        doc = {"a": {"l": [inner]}}
    else:
        doc = [inner, 1]
    which = "list" if position == "list-root" else "dict"
    fam.write(env, res, doc)
    root = fam.make(env, which, res)
    ref = copy_tree(doc)
    path = {"root": (), "in-dict": ("a",), "in-list": ("l", 1), "depth3": ("a", "l", 0), "list-root": (0,)}[position]
    t = root
    for k in path:
        t = t[k]
    return root, t, ref, at(ref, path)


def GA(o, name):
    """getattr(o, name).  CrossHair's patched getattr() runs __getattr__ with tracing off
    (symbolic leaves then break), so under the solver the builtin's own two steps are
    spelled out; the replay in the real environment uses the builtin itself."""
    if get_env().mode == "real":
        return getattr(o, name)
    try:
        return object.__getattribute__(o, name)
    except AttributeError:
        return type(o).__getattr__(o, name)


def SA(o, name, v):
    if get_env().mode == "real":
        return setattr(o, name, v)
    return type(o).__setattr__(o, name, v)


def DA(o, name):
    if get_env().mode == "real":
        return delattr(o, name)
    return type(o).__delattr__(o, name)


def outcome(f):
    try:
        return ("ok", f())
    except hlib.Crash:
        raise
    except Exception as e:
        return ("exc", e)


def attr_item(ps: int, ki: int, oi: int, x: int, v: int) -> bool:
    """
    post: _
    """
    env = get_env().reset()
    cells = attr_cells()
    fam, position = cells[hlib.PART % len(cells)]
    if ps != 0:
        return finish(False, True)
    cls = fam.D
    keys = key_sets(cls)
    nsl = max(1, hlib.NPARTS // len(cells))  # further split by key slice
    kk = pick(keys[(hlib.PART // len(cells))::nsl], ki)
    op = pick(AOPS, oi)
    if position is None or kk is None or op is None:
        return finish(False, True)
    group, key = kk
    cat = category(cls, key)
    present = op in ("get_present", "set_replace", "del_present")
    valid_key = "." not in key
    # twins: 1 is driven with attribute syntax, 2 with item syntax
    r1, t1, ref1, rt1 = build(fam, env, position, "r1", key, present, x)
    r2, t2, ref2, rt2 = build(fam, env, position, "r2", key, present, x)
    if type(t1) is not fam.D:
        return finish(True, fail(lambda: f"{cls.__name__} at {position}: node is {type(t1).__name__}"))
    case(cls.__name__, position, cat, op, key if len(key) < 24 else key[:24])
    val = {"p": v} if op == "set_container" else v
    label = f"{cls.__name__} at {position}, key {key!r} ({cat}), {op}"

    def backend_ok(which):
        got = fam.read(env, "r1" if which == 1 else "r2")
        want = ref1 if which == 1 else ref2
        return got is not MISSING and same_tree(got, want)

    if op == "item_store_then_attr":
        # storing any name through item access never disturbs the object
        if not valid_key:
            return finish(True, True)
        own_before = outcome(lambda: object.__getattribute__(t1, key))
        t1[key] = v
        rt1[key] = v
        own_after = outcome(lambda: object.__getattribute__(t1, key))
        if own_before[0] != own_after[0] or (own_before[0] == "ok" and not (own_before[1] is own_after[1] or own_before[1] == own_after[1])):
            return finish(True, fail(lambda: f"{label}: object attribute changed by the item store: {own_before!r} -> {own_after!r}"))
        got = outcome(lambda: t1[key])
        if got[0] != "ok" or not eq_plain(plain(got[1]), v):
            return finish(True, fail(lambda: f"{label}: item read back {got!r}"))
        if cat in ("protected", "classattr") and own_after[0] == "ok":
            a = outcome(lambda: GA(t1, key))
            if a[0] != "ok" or not (own_after[0] == "ok" and (a[1] is own_after[1] or a[1] == own_after[1])):
                return finish(True, fail(lambda: f"{label}: attribute syntax no longer addresses the object: {a!r}"))
        elif cat == "free":
            a = outcome(lambda: GA(t1, key))
            if a[0] != "ok" or not eq_plain(plain(a[1]), v):
                return finish(True, fail(lambda: f"{label}: attribute read of the stored key gives {a!r}"))
        # the object still works: a further write persists
        t1["after"] = 1
        rt1["after"] = 1
        if not same_tree(r1(), ref1) or not backend_ok(1):
            return finish(True, fail(lambda: f"{label}: object broken after the item store: {r1()!r} vs {ref1!r}"))
        return finish(True, True)

    if cat == "classattr":
        return finish(True, True)  # no claim for attribute syntax on existing class attributes
    if cat in ("protected", "dunder"):
        # attribute syntax addresses the object itself: the data must not change
        if op in ("get_present", "get_missing"):
            a = outcome(lambda: GA(t1, key))
            own = outcome(lambda: object.__getattribute__(t1, key))
            if own[0] == "ok":
                good = a[0] == "ok" and (a[1] is own[1] or a[1] == own[1])
            elif cat == "dunder":
                good = a[0] == "exc" and isinstance(a[1], AttributeError)
            else:
                # a protected name the object does not carry: __getattr__ treats it as a key
                # (pinned by tests/attr_dict_test.py, which expects the resulting recursion
                # after `del obj._root`); no claim
                return finish(True, True)
            if not good:
                return finish(True, fail(lambda: f"{label}: attribute read gives {a!r}, the object has {own!r}"))
        elif op in ("set_new", "set_replace"):
            if key in ("__dict__", "__class__"):
                return finish(True, True)  # assigning these has its own Python semantics
            own = outcome(lambda: object.__getattribute__(t1, key))
            if cat == "protected" and not (key in t1.__dict__ or (key == "filename" and position in ("root", "list-root") and False)):
                return finish(True, True)  # only instance attributes are re-assigned (to their own value)
            newv = own[1] if cat == "protected" else v
            a = outcome(lambda: SA(t1, key, newv))
            if a[0] != "ok":
                return finish(True, fail(lambda: f"{label}: attribute assignment raised {a[1]!r}"))
            now = outcome(lambda: object.__getattribute__(t1, key))
            if now[0] != "ok" or not (now[1] is newv or now[1] == newv):
                return finish(True, fail(lambda: f"{label}: attribute assignment did not reach the object: {now!r}"))
        elif op == "del_missing" and cat == "dunder":
            if key in ("__dict__", "__class__"):
                return finish(True, True)
            a = outcome(lambda: DA(t1, key))
            if a[0] != "exc" or not isinstance(a[1], (AttributeError, TypeError)):
                return finish(True, fail(lambda: f"{label}: del of a missing dunder attribute gave {a!r}"))
        else:
            return finish(True, True)
        if not same_tree(r1(), ref1) or not backend_ok(1):
            return finish(True, fail(lambda: f"{label}: data changed: {r1()!r}, backend {fam.read(env, 'r1')!r}, expected {ref1!r}"))
        return finish(True, True)

    # free keys: attribute syntax == item syntax
    if op in ("get_after_other_deleted", "get_after_other_retyped"):
        # the key holds a nested container that this handle has loaded; ANOTHER object on the same
        # resource then removes it / replaces it by a scalar: attribute syntax must reload like item
        # syntax does (no shortcut through the cached child)
        if not valid_key:
            return finish(True, True)
        path = {"root": (), "in-dict": ("a",), "in-list": ("l", 1), "depth3": ("a", "l", 0), "list-root": (0,)}[position]
        which_root = "list" if position == "list-root" else "dict"
        for t, res in ((t1, "r1"), (t2, "r2")):
            t[key] = {"p": v}
            t()
            other = fam.make(env, which_root, res)
            for kk in path:
                other = other[kk]
            if op == "get_after_other_deleted":
                del other[key]
            else:
                other[key] = 7
        a = outcome(lambda: GA(t1, key))
        b = outcome(lambda: t2[key])
        if a[0] != b[0]:
            return finish(True, fail(lambda: f"{label}: attribute syntax {a!r}, item syntax {b!r}"))
        if a[0] == "exc":
            good = isinstance(a[1], AttributeError) if isinstance(b[1], KeyError) else isinstance(a[1], type(b[1]))
            return finish(True, good or fail(lambda: f"{label}: attribute syntax raised {a[1]!r}, item syntax {b[1]!r}"))
        return finish(True, eq_plain(plain(a[1]), plain(b[1])) or fail(lambda: f"{label}: attribute syntax returned {plain(a[1])!r}, item syntax {plain(b[1])!r}"))
    if op in ("get_present", "get_missing"):
        a = outcome(lambda: GA(t1, key))
        b = outcome(lambda: t2[key])
    elif op in ("set_new", "set_replace", "set_container"):
        a = outcome(lambda: SA(t1, key, copy_tree(val)))
        b = outcome(lambda: t2.__setitem__(key, copy_tree(val)))
        if b[0] == "ok":
            rt1[key] = copy_tree(val)
            rt2[key] = copy_tree(val)
    else:
        a = outcome(lambda: DA(t1, key))
        b = outcome(lambda: t2.__delitem__(key))
        if b[0] == "ok":
            del rt1[key]
            del rt2[key]
    if a[0] != b[0]:
        return finish(True, fail(lambda: f"{label}: attribute syntax {a!r}, item syntax {b!r}"))
    if a[0] == "exc":
        if isinstance(b[1], KeyError):
            good = isinstance(a[1], AttributeError) or (op.startswith("del") and isinstance(a[1], KeyError))
        else:
            good = isinstance(a[1], type(b[1]))
        if not good:
            return finish(True, fail(lambda: f"{label}: attribute syntax raised {a[1]!r}, item syntax {b[1]!r}"))
    elif not eq_plain(plain(a[1]), plain(b[1])):
        return finish(True, fail(lambda: f"{label}: attribute syntax returned {plain(a[1])!r}, item syntax {plain(b[1])!r}"))
    if not same_tree(r1(), ref1) or not same_tree(r2(), ref2) or not backend_ok(1) or not backend_ok(2):
        return finish(True, fail(lambda: f"{label}: after the operation attribute twin holds {r1()!r} / backend {fam.read(env, 'r1')!r}, item twin {r2()!r}; expected {ref1!r}"))
    if op == "set_container":
        n1 = outcome(lambda: GA(t1, key))
        if n1[0] != "ok" or type(n1[1]) is not fam.D:
            return finish(True, fail(lambda: f"{label}: stored container reads back as {n1!r}"))
        inner = outcome(lambda: GA(n1[1], "p"))
        if inner[0] != "ok" or not eq_plain(inner[1], v):
            return finish(True, fail(lambda: f"{label}: attribute access below the new container gives {inner!r}"))
        SA(n1[1], "w", 3)
        rt1[key]["w"] = 3
        if not backend_ok(1):
            return finish(True, fail(lambda: f"{label}: attribute write below the new container did not persist: {fam.read(env, 'r1')!r}"))
    return finish(True, True)


def plan(tier):
    t = 300 if tier == "quick" else 1500
    return [
        {"fn": "family", "nparts": len(PARTS), "timeout": t},
        {"fn": "attr_item", "nparts": 2 * len(attr_cells()), "timeout": t},
    ]


def smoke(tier):
    out = []
    for part in range(len(PARTS)):
        for hw in range(12):
            out.append(("family", (hw % 4, (hw + part) % len(QUICK_NEW), hw, 1, 3), part, len(PARTS)))
    for part, (f, pos) in enumerate(attr_cells()):
        nk = len(key_sets(f.D))
        for ki in range(0, nk, 3):
            for oi in range(len(AOPS)):
                out.append(("attr_item", (0, ki + (oi % 3), oi, 1, 2), part, len(attr_cells())))
    return out


# ======================================================================================
# Engine B: routing kernels, all strings
# ======================================================================================


def stored_on_self(cls):
    """Names any non-class method of a library class in the MRO stores/deletes on `self`,
    plus settable properties: attribute syntax on these must address the object."""
    names = {}
    for c in cls.__mro__:
        if not (c.__module__ or "").startswith("synced_collections"):
            continue
        try:
            tree = ast.parse(inspect.getsource(sys.modules[c.__module__]))
        except Exception:
            continue
        for node in ast.walk(tree):
            if not (isinstance(node, ast.ClassDef) and node.name == c.__name__):
                continue
            for f in node.body:
                if not isinstance(f, ast.FunctionDef) or not f.args.args:
                    continue
                if any(isinstance(d, ast.Name) and d.id in ("classmethod", "staticmethod") for d in f.decorator_list):
                    continue
                me = f.args.args[0].arg
                for n in ast.walk(f):
                    tg = []
                    if isinstance(n, ast.Assign):
                        tg = n.targets
                    elif isinstance(n, (ast.AugAssign, ast.AnnAssign)):
                        tg = [n.target]
                    elif isinstance(n, ast.Delete):
                        tg = n.targets
                    for t in tg:
                        for tt in ast.walk(t):
                            if isinstance(tt, ast.Attribute) and isinstance(tt.value, ast.Name) and tt.value.id == me and isinstance(tt.ctx, (ast.Store, ast.Del)):
                                names.setdefault(tt.attr, f"{c.__name__}.{f.name}")
                    if isinstance(n, ast.Call) and isinstance(n.func, ast.Name) and n.func.id == "setattr" and len(n.args) >= 2:
                        if isinstance(n.args[0], ast.Name) and n.args[0].id == me and isinstance(n.args[1], ast.Constant):
                            names.setdefault(n.args[1].value, f"{c.__name__}.{f.name}")
    for n in dir(cls):
        raw = inspect.getattr_static(cls, n)
        if isinstance(raw, property) and raw.fset is not None:
            names.setdefault(n, "settable property")
    return names


def attr_dict_classes():
    import importlib

    from synced_collections.data_types.attr_dict import AttrDict

    out = []
    for f in FAMILIES:
        m = importlib.import_module(f.mod)
        for n in sorted(vars(m)):
            c = getattr(m, n)
            if isinstance(c, type) and issubclass(c, AttrDict) and c is not AttrDict and c.__module__ == m.__name__ and c not in out:
                out.append(c)
    return out


def kernel_paths(cls, method, stats):
    import z3
    from vf import kernel_smt as K

    fn = None
    owner = None
    for c in cls.__mro__:
        if method in vars(c):
            fn, owner = vars(c)[method], c
            break
    if fn is None or owner is object:
        raise K.Unsupported(f"{cls.__name__} has no Python-level {method}")
    # whatever follows the owner in the MRO must be object's implementation
    idx = cls.__mro__.index(owner)
    for c in cls.__mro__[idx + 1:]:
        if c is not object and method in vars(c) and method != "__getattr__":
            raise K.Unsupported(f"{method} is overridden again in {c.__name__}")
    key = K.SStr(z3.String("key"))
    value = K.Opaque("value")
    ex = K.Explorer(stats=stats)
    seen = set()

    def thunk(ctx):
        it = K.Interp(ctx)
        args = [K.Recv(cls), key] + ([value] if method == "__setattr__" else [])
        try:
            return it.call_python(fn, args, cls=owner)
        finally:
            seen.update(it.functions_seen)

    return key, value, ex, ex.run(thunk), seen


def classify_path(p, key, value, method):
    """-> (route, detail) with route in object|item|raise|other."""
    from vf import kernel_smt as K

    eff = [e for e in p.effects]
    names = [e[0] for e in eff]
    if method == "__setattr__":
        if names == ["object.__setattr__"] and p.kind == "return":
            return "object", eff[0][1]
        if names == ["item.set"] and p.kind == "return":
            return "item", eff[0][1]
    elif method == "__delattr__":
        if names == ["object.__delattr__"] and p.kind == "return":
            return "object", eff[0][1]
        if names == ["item.del"]:
            if p.kind == "return":
                return "item", eff[0][1]
            if p.kind == "raise" and issubclass(p.value.cls, (KeyError, AttributeError)):
                return "item-missing", eff[0][1]
    else:
        if names == ["item.get"]:
            if p.kind == "return" and isinstance(p.value, K.SItem):
                return "item", (eff[0][1][0], p.value.key)
            if p.kind == "raise" and issubclass(p.value.cls, AttributeError):
                return "item-missing", eff[0][1]
            if p.kind == "raise":
                return "item-missing-wrong-exception", p.value.cls.__name__
        if not names and p.kind == "raise" and issubclass(p.value.cls, AttributeError):
            return "object", ()
    if p.kind == "raise" and not names:
        return "raise", p.value.cls.__name__
    return "other", repr((p.kind, p.value, eff))


def real_kernel_run(cls, method, key):
    """The real method objects of `cls` on a recording receiver (translator validation)."""
    log = []

    class Rec:
        def __setattr__(self, k, v):
            log.append(("object.__setattr__", k))

        def __delattr__(self, k):
            log.append(("object.__delattr__", k))

    owners = []
    ns = {"_PROTECTED_KEYS": cls._PROTECTED_KEYS}
    for m in ("__getattr__", "__setattr__", "__delattr__"):
        for c in cls.__mro__:
            if m in vars(c) and c is not object:
                ns[m] = vars(c)[m]
                if c not in owners:
                    owners.append(c)
                break

    def gi(self, k):
        log.append(("item.get", k))
        raise KeyError(k)

    def si(self, k, v):
        log.append(("item.set", k))

    def di(self, k):
        log.append(("item.del", k))

    from synced_collections.data_types.attr_dict import AttrDict

    Kc = type("K", (AttrDict, Rec), {"_PROTECTED_KEYS": cls._PROTECTED_KEYS, "__getitem__": gi, "__setitem__": si, "__delitem__": di,
                                    **{m: f for m, f in ns.items() if m.startswith("__")}})
    o = object.__new__(Kc)
    try:
        if method == "__setattr__":
            ns["__setattr__"](o, key, 1)
        elif method == "__delattr__":
            ns["__delattr__"](o, key)
        else:
            ns["__getattr__"](o, key)
        exc = None
    except Exception as e:
        exc = type(e)
    route = "object" if any(x[0].startswith("object.") for x in log) else ("item" if log else "object" if exc and issubclass(exc, AttributeError) else "raise")
    return route, exc


def engine_b(tier):
    """Returns dict(obligations, discharged, violations[], inconclusive[], samples[], ...)."""
    import z3
    from vf import kernel_smt as K

    stats = K.Stats()
    out = {"obligations": 0, "discharged": 0, "violations": [], "inconclusive": [], "samples": [], "functions": set(), "validated": 0, "classes": [], "translator_disagreements": []}
    for cls in attr_dict_classes():
        out["classes"].append(cls.__name__)
        P = sorted(cls._PROTECTED_KEYS)
        required = stored_on_self(cls)
        classattrs = sorted(n for n in dir(cls))
        for method in ("__setattr__", "__delattr__", "__getattr__"):
            try:
                key, value, ex, paths, seen = kernel_paths(cls, method, stats)
            except K.Unsupported as e:
                out["inconclusive"].append(f"{cls.__name__}.{method}: outside the translated subset: {e}")
                continue
            out["functions"].update(seen)
            kz = key.z
            is_obj = z3.Or(z3.PrefixOf(z3.StringVal("__"), kz), *[kz == z3.StringVal(p) for p in P])
            not_classattr = z3.And(*[kz != z3.StringVal(n) for n in classattrs])

            def ask(name, constraints, describe):
                out["obligations"] += 1
                r, s = ex.check(constraints)
                if r == "unsat":
                    out["discharged"] += 1
                elif r == "sat":
                    m = s.model()
                    kval = m.eval(kz, model_completion=True).as_string()
                    out["violations"].append({"class": cls.__name__, "method": method, "obligation": name, "key": kval, "what": describe})
                else:
                    out["inconclusive"].append(f"{cls.__name__}.{method} {name}: solver answered {r}")
                if len(out["samples"]) < 14:
                    out["samples"].append({"class": cls.__name__, "method": method, "obligation": name, "result": r})

            for i, p in enumerate(paths):
                route, detail = classify_path(p, key, value, method)
                pc = p.conds
                tag = f"path{i}:{route}"
                if route == "object":
                    # only protected names and dunders may address the object
                    extra = [not_classattr] if method == "__getattr__" else []
                    ask(f"{tag} => protected-or-dunder", pc + [z3.Not(is_obj)] + extra, "a key that is neither protected nor a dunder is not routed to item access")
                    if method != "__getattr__":
                        k2 = detail[0]
                        if not isinstance(k2, K.SStr):
                            out["violations"].append({"class": cls.__name__, "method": method, "obligation": f"{tag} name passed on", "key": "k", "what": f"object access uses {k2!r} instead of the key"})
                        else:
                            ask(f"{tag} same name", pc + [k2.z != kz], "the object is addressed under another name")
                        if method == "__setattr__" and detail[1] is not value:
                            out["obligations"] += 1
                            out["violations"].append({"class": cls.__name__, "method": method, "obligation": f"{tag} value passed on", "key": "k", "what": "another value is stored"})
                elif route in ("item", "item-missing"):
                    # __getattr__ only runs after normal lookup failed: a protected name that is
                    # missing on the object is not constrained, a dunder must not reach the data
                    forbidden = z3.PrefixOf(z3.StringVal("__"), kz) if method == "__getattr__" else is_obj
                    ask(f"{tag} => not protected, not dunder", pc + [forbidden], "a protected name or dunder is routed to the data")
                    k2 = detail[0]
                    if not isinstance(k2, K.SStr):
                        out["violations"].append({"class": cls.__name__, "method": method, "obligation": f"{tag} key passed on", "key": "k", "what": f"item access uses {k2!r}"})
                    else:
                        ask(f"{tag} same key", pc + [k2.z != kz], "item access uses another key")
                    if method == "__setattr__" and route == "item" and detail[1] is not value:
                        out["obligations"] += 1
                        out["violations"].append({"class": cls.__name__, "method": method, "obligation": f"{tag} value passed on", "key": "k", "what": "another value is stored"})
                    if method == "__getattr__" and route == "item" and isinstance(detail[1], K.SStr):
                        ask(f"{tag} returns the item of the same key", pc + [detail[1].z != kz], "returns another key's item")
                else:
                    # raise / wrong exception / unrecognised effect pattern: must be infeasible
                    ask(f"{tag} unreachable", pc, f"path does neither item nor object access: {detail}")
            # completeness of the protected set: names the MRO stores on self
            for n, where in sorted(required.items()):
                if n.startswith("__"):
                    continue
                for i, p in enumerate(paths):
                    route, detail = classify_path(p, key, value, method)
                    if method != "__getattr__" and route in ("item", "item-missing"):
                        ask(f"internal name {n!r} ({where}) not routed to the data", p.conds + [kz == z3.StringVal(n)], f"{n!r}, which {where} stores on self, is routed to the data by attribute syntax")
            # translator validation: real methods on a recording receiver vs the encoding
            names = P + [n for n in classattrs if not n.startswith("__")][:25] + ["__x__", "__", "_", "_x_", "k", "", "a.b", "not an identifier", "_data_", "x__"]
            for n in names:
                real_route, real_exc = real_kernel_run(cls, method, n)
                enc = set()
                for p in paths:
                    r, s = ex.check(p.conds + [kz == z3.StringVal(n)])
                    if r == "sat":
                        enc.add(classify_path(p, key, value, method)[0].split("-")[0])
                out["validated"] += 1
                if real_route not in enc:
                    out["translator_disagreements"].append(f"{cls.__name__}.{method}({n!r}): real {real_route}/{real_exc}, encoding {sorted(enc)}")
    out["stats"] = stats
    return out


def replay_b(v):
    """Replay an Engine-B counterexample key through the public API on real files."""
    import json as _json
    import os
    import tempfile
    import importlib

    cls = None
    for c in attr_dict_classes():
        if c.__name__ == v["class"]:
            cls = c
    key = v["key"]
    d = tempfile.mkdtemp(prefix="vf_c18_")
    detail = []
    try:
        def mk(name, doc):
            p = os.path.join(d, name)
            with open(p, "w") as f:
                _json.dump(doc, f)
            return cls(filename=p), p

        protected = key in cls._PROTECTED_KEYS or key.startswith("__")
        if v["obligation"].startswith("internal name"):
            # a name the class's own methods store on self / a settable property: attribute
            # syntax must reach the object, never the data
            o, p = mk("a.json", {"s": 1, key: 2} if v["method"] == "__delattr__" else {"s": 1})
            val = os.path.join(d, "other.json") if key == "filename" else 5
            try:
                if v["method"] == "__setattr__":
                    setattr(o, key, val)
                else:
                    delattr(o, key)
                err = None
            except Exception as e:
                err = e
            fa = _json.load(open(p))
            bad = (key in fa) if v["method"] == "__setattr__" else (key not in fa or isinstance(err, KeyError))
            detail.append(f"{v['method']}(obj, {key!r}) on a collection whose class stores/defines {key!r} itself: file now {fa!r} (raised {err!r})")
            return bad, detail
        if v["method"] == "__setattr__":
            o, p = mk("a.json", {"s": 1})
            try:
                setattr(o, key, 5)
                err = None
            except Exception as e:
                err = e
            o2, p2 = mk("b.json", {"s": 1})
            try:
                o2[key] = 5
                err2 = None
            except Exception as e:
                err2 = e
            fa, fb = _json.load(open(p)), _json.load(open(p2))
            if protected:
                bad = key in fa
            else:
                bad = (fa != fb) or (type(err) is not type(err2))
            detail.append(f"setattr(obj, {key!r}, 5): file {fa!r} (raised {err!r}); obj[{key!r}] = 5: file {fb!r} (raised {err2!r})")
        elif v["method"] == "__delattr__":
            o, p = mk("a.json", {"s": 1, key: 2})
            try:
                delattr(o, key)
                err = None
            except Exception as e:
                err = e
            fa = _json.load(open(p))
            bad = (key not in fa) if protected else (key in fa)
            detail.append(f"delattr(obj, {key!r}) on {{'s': 1, {key!r}: 2}}: file {fa!r} (raised {err!r})")
        else:
            o, p = mk("a.json", {"s": 1, key: 2})
            try:
                got = getattr(o, key)
                err = None
            except Exception as e:
                got, err = None, e
            if hasattr(cls, key) or protected:
                bad = False if protected and err is not None else (not protected and False)
                if protected and err is None and not hasattr(cls, key) and key not in o.__dict__:
                    bad = True
            else:
                bad = err is not None or got != 2
            o3, _ = mk("c.json", {"s": 1})
            try:
                getattr(o3, key)
                miss = None
            except Exception as e:
                miss = e
            if not protected and not hasattr(cls, key) and not isinstance(miss, AttributeError):
                bad = True
            detail.append(f"getattr(obj, {key!r}) on {{'s': 1, {key!r}: 2}} -> {got!r} (raised {err!r}); on a dict without the key raised {miss!r}")
        return bad, detail
    except Exception as e:
        return False, detail + [f"replay raised {e!r}"]
    finally:
        import shutil

        shutil.rmtree(d, ignore_errors=True)


def replay_b_subprocess(v):
    """replay_b in a fresh interpreter: the untouched library on real files (no
    environment model may be installed in the replaying process)."""
    import json as _json
    import os
    import subprocess

    env = dict(os.environ)
    env.pop("VF_MODE", None)
    code = "import json,sys; import harness.C18 as c; print('RB ' + json.dumps(c.replay_b(json.loads(sys.stdin.read()))))"
    try:
        p = subprocess.run([sys.executable, "-c", code], input=_json.dumps(v), capture_output=True, text=True, timeout=120, env=env, cwd=os.path.dirname(os.path.dirname(os.path.abspath(__file__))))
        for line in p.stdout.splitlines():
            if line.startswith("RB "):
                bad, detail = _json.loads(line[3:])
                return bool(bad), detail
        return False, ["replay subprocess gave no result: " + (p.stdout + p.stderr)[-800:]]
    except Exception as e:
        return False, [f"replay subprocess failed: {e!r}"]


FUNCTIONS = [
    "synced_collections.data_types.attr_dict:AttrDict.__getattr__",
    "synced_collections.data_types.attr_dict:AttrDict.__setattr__",
    "synced_collections.data_types.attr_dict:AttrDict.__delattr__",
    "synced_collections.data_types.synced_collection:SyncedCollection._from_base",
    "synced_collections.data_types.synced_dict:SyncedDict._update",
    "synced_collections.data_types.synced_list:SyncedList._update",
    "synced_collections.data_types.synced_dict:SyncedDict._convert_to_synced",
    "synced_collections.data_types.synced_list:SyncedList._convert_to_synced",
    "synced_collections.data_types.synced_dict:SyncedDict.__setitem__",
    "synced_collections.data_types.synced_list:SyncedList.__setitem__",
    "synced_collections.data_types.synced_list:SyncedList.insert",
    "synced_collections.data_types.synced_list:SyncedList.extend",
]
BOUNDS = {
    "engine_B": "key strings: ALL strings (z3 String, unbounded length); classes: every AttrDict subclass found in the backend modules; the protected set and the class attribute names are read from the class at run time",
    "engine_A_family": {"classes": "9 families x dict/list root", "old_value": [s[0] for s in OLD_SHAPES], "new_container": [s[0] for s in NEW_SHAPES], "ways_in": HOWS, "leaves": "symbolic ints"},
    "engine_A_attr_item": {"classes": [f.dname for f in ATTR_FAMS], "positions": POSITIONS, "operations": AOPS, "keys": "every protected name, every public and 12 private class attribute names, dunders, ordinary / odd / non-identifier / empty names (finite, introspected)"},
}
ASSUMPTIONS = [
    "Engine B: __getattr__ is only invoked by Python after normal attribute lookup failed; object.__setattr__/__delattr__ (the next implementation in the MRO, checked) address the object itself; item access is abstracted as an effect with an arbitrary present/missing outcome",
    "Engine A: environment models of vf/env_model.py; key alphabet finite (the all-strings claim is Engine B's)",
]
OUTSIDE = ["attribute syntax on names that are existing class attributes (excluded by the property)", "containers deeper than the D2 shapes / attribute dicts deeper than 3", "del obj.k on a missing key may raise KeyError or AttributeError (the statement fixes AttributeError for reads)"]
LEVEL = "model_checking"


def main(tier, seed):
    import harness.C18 as me
    from vf import run as vrun

    t0 = time.time()
    b = engine_b(tier)
    lines = []
    viol_records = []
    mismatches = []
    for v in b["violations"]:
        bad, detail = replay_b_subprocess(v)
        rec = {"property": PID, "harness": "harness.C18.engine_b", "engine": "B", "counterexample": v, "replay": {"outcome": "fail" if bad else "pass", "detail": detail}}
        if bad:
            viol_records.append(rec)
        else:
            mismatches.append(rec)
    res = vrun.verify_A(me, tier, seed)
    res["traces_validated"] += b["validated"] + len(b["violations"])
    seen = set()
    for rec in viol_records:
        k = (rec["counterexample"]["class"], rec["counterexample"]["method"], rec["counterexample"]["key"])
        if k in seen:
            continue
        seen.add(k)
        res["violations"].append(rec)
    for rec in mismatches:
        res["mismatch"].append({"what": "Engine B counterexample does not reproduce through the public API", **rec})
    for d in b["translator_disagreements"]:
        res["harness_errors"].append("translator validation: " + d)
    if b["obligations"] == 0:
        res["harness_errors"].append("Engine B produced no obligation")
    for i in b["inconclusive"]:
        res["inconclusive"].append("engine B: " + i)
    st = b["stats"]
    res["queries"] += st.queries
    res["solver_s"] += st.solver_s
    res["wall_s"] = round(time.time() - t0, 2)
    extra = {"engine_B": {"classes": b["classes"], "obligations": b["obligations"], "discharged": b["discharged"], "kernel_paths": st.paths, "solver_queries": st.queries,
                          "solver_seconds": round(st.solver_s, 2), "solver_unknown": st.unknown, "translator_validation_runs": b["validated"],
                          "functions_translated": sorted(b["functions"]), "samples": b["samples"], "violations": b["violations"][:10]}}
    return vrun.finish(res, me, extra_cov=extra)
