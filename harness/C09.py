"""C09 Concurrent writers are linearizable: no update is ever lost.  Engine C.

Programs: one mutating operation per thread, every pair of mutators, handle relations
{same object, two objects on one file, nested child obtained before the threads start
next to the same root / next to a second root object}."""
from vf import hlib, ops, conc_run

PID = "C09"
ENGINE = "C"

QUICK = {
    "dict": ["setitem_new", "setitem_replace", "delitem", "pop", "popitem", "clear", "reset", "update_two_new", "setdefault_new", "reset_larger"],
    "list": ["append", "setitem", "delitem", "insert", "extend", "pop", "pop_index", "clear", "reset", "remove", "reverse", "iadd"],
}


def table(kind, tier):
    if tier == "thorough":
        return [o.name for o in ops.mutators(kind)]
    return QUICK[kind]


def specs(tier):
    out = []
    fams = ["JSON"] if tier == "quick" else ["JSON", "JSONAttr", "BufferedJSON", "MemoryBufferedJSON"]
    for fam in fams:
        for which in ("dict", "list"):
            t = table(which, tier)
            for rel in ("same", "two"):
                for i, a in enumerate(t):
                    for b in t[i:]:
                        out.append({"fam": fam, "which": which, "relation": rel, "op1": a, "op2": b, "variants": tier == "thorough" and fam == "JSON"})
            # container-valued arguments (constructing nested children touches the shared
            # suspend counter): every value-taking mutator with a container value next to every mutator
            taking = [o.name for o in ops.mutators(which) if o.v and o.name in t]
            for rel in ("same", "two"):
                for a in taking:
                    for b in t:
                        out.append({"fam": fam, "which": which, "relation": rel, "op1": a + "+c", "op2": b, "variants": tier == "thorough" and fam == "JSON"})
            child = table("dict", tier)
            for rel in ("nested-same", "nested-two"):
                for a in child:
                    for b in t:
                        out.append({"fam": fam, "which": which, "relation": rel, "op1": a, "op2": b, "variants": tier == "thorough" and fam == "JSON"})
    return out


def fingerprint(r):
    s = r["spec"]
    v = r.get("violation", {})
    return {"kind": v.get("kind"), "ops": sorted({s["op1"], s["op2"]}), "op1": s["op1"], "op2": s["op2"], "relation": s["relation"], "which": s["which"]}


def main(tier, seed):
    import harness.C09 as me

    return conc_run.run(PID, tier, seed, specs(tier), me, fingerprint)


BOUNDS = {"quick": {"classes": "JSONDict, JSONList", "threads": 2, "operations_per_thread": 1, "mutators": QUICK, "relations": ["same", "two", "nested-same", "nested-two"]},
          "thorough": {"classes": "JSON, JSONAttr, BufferedJSON, MemoryBufferedJSON dict/list", "mutators": "all table entries", "trace_variants": "each operation also traced from the state after the other one"}}
ASSUMPTIONS = [
    "conflict-serializability of the recorded events is a sufficient condition: 'unsat' means no conflict-cyclic ordering of these event sequences exists, which implies the property for them; a 'sat' witness counts only after its order, forced on real threads, produced an outcome no serial order produces (or a hang)",
    "shared locations are coarsened to: in-memory tree per root object, suspend counter per root, file, class-level buffer fields, other assigned attributes per object; idempotent registries/memo tables (type_map, _locks) are excluded",
    "preemption points are library source lines, lock operations and file operations (not bytecodes, not inside C functions)",
]
OUTSIDE = ["more than 2 threads / 1 operation per thread", "control flow that differs from the recorded traces (quick: traces from the initial state only)", "preemption inside C code"]
