"""C11 Forbidden data never gets in: Engine A entry-point harness (C11a) and the Engine B
validator kernels (C11b: the validator functions translated to z3, all key strings, value
trees up to the stated width/depth)."""
import time

from harness.C11a import *  # noqa: F401,F403
from harness import C11a as _a

PID = "C11"
reject = _a.reject


def main(tier, seed):
    import harness.C11 as me
    from harness import C11b
    from vf import run as vrun

    t0 = time.time()
    b = C11b.engine_b(tier, seed)
    res = vrun.verify_A(me, tier, seed)
    seen = set()
    for v in b["violations"]:
        res["traces_validated"] += 1
        rec = {"property": PID, "harness": "harness.C11b.engine_b", "engine": "B", "counterexample": {k: v[k] for k in v if k != "replay"}, "replay": v["replay"]}
        if v["replay"]["outcome"] == "fail":
            key = (v.get("validator") or v.get("class"), v["obligation"])
            if key not in seen:
                seen.add(key)
                res["violations"].append(rec)
        else:
            res["mismatch"].append({"what": "Engine B counterexample does not reproduce on the real validators", **rec})
    res["traces_validated"] += b["validated"]
    for d in b["mismatch"]:
        res["harness_errors"].append("translator validation: " + d)
    if b["obligations"] == 0:
        res["harness_errors"].append("Engine B produced no obligation")
    for i in b["inconclusive"]:
        res["inconclusive"].append("engine B: " + i)
    st = b["stats"]
    res["queries"] += st.queries
    res["solver_s"] += st.solver_s
    res["wall_s"] = round(time.time() - t0, 2)
    extra = {"engine_B": {"bounds": b["bounds"], "value_tree_nodes": b["nodes"], "obligations": b["obligations"], "discharged": b["discharged"], "kernel_paths": st.paths,
                          "solver_queries": st.queries, "solver_seconds": round(st.solver_s, 2), "solver_unknown": st.unknown, "translator_validation_runs": b["validated"],
                          "functions_translated": sorted(b["functions"]), "samples": b["samples"], "violations": [{k: v[k] for k in v} for v in b["violations"][:8]]}}
    return vrun.finish(res, me, extra_cov=extra)
