#!/bin/bash
# usage: tools/demo_on_head.sh <seeded-name> : does the seeded change still apply to /repo HEAD, and does its demo still fail there?
S=$1; WT=/tmp/dh_$S
git -C /repo worktree add -q --detach $WT HEAD || exit 9
cd $WT
/venv/bin/python /verif/seeded/$S/demo.py >/dev/null 2>&1; PRE=$?
if git apply /verif/seeded/$S/patch.diff 2>/dev/null; then A=clean; elif git apply -3 /verif/seeded/$S/patch.diff 2>/dev/null; then A=3way; else A=FAILED; fi
/venv/bin/python /verif/seeded/$S/demo.py >/dev/null 2>&1; POST=$?
cd /; git -C /repo worktree remove --force $WT
echo "$S apply=$A demo_on_head=$PRE demo_with_change=$POST"
