"""C16 Values are copied in and out: no aliasing with user-held objects.

Engine A, single step.
* `alias_in`     -- every operation that takes a container (constructor data included):
                    afterwards every container reachable from the user's argument is
                    mutated; collection and backend must not change.
* `alias_out`    -- (), values(), items() return detached plain built-ins; mutating
                    them, or a value removed by pop/popitem/del, changes nothing.
* `alias_assign` -- assigning a synced node (same tree / other collection) into
                    another position stores an independent copy: mutating either side
                    leaves the other side alone, in memory and in both backends."""
from vf import hlib, ops
from vf.hlib import FAMILIES, FAM, D2, D3_SPINE, Leaves, MISSING, case, fail, fill, finish, get_env, pick, plain, same_tree, is_plain, copy_tree, eq_plain, known

PID = "C16"
WHICH = ["dict", "list"]
PARTS = [(f, w) for f in FAMILIES for w in WHICH]
CONTAINERS = [s for s in D2 if isinstance(s[1], (dict, list))]

IN_OPS = {
    "dict": ["setitem_new", "setitem_replace", "update_map", "update_pairs", "update_kwargs", "setdefault_new", "reset", "ctor"],
    "list": ["setitem", "setslice", "append", "extend_tuple", "insert", "iadd", "reset", "ctor"],
}


TUPLES = [("(x,[y])", (hlib.SLOT, [hlib.SLOT])), ("{p:(x,{q})}", {"p": (hlib.SLOT, {"q": hlib.SLOT})}), ("[(x,[y])]", [(hlib.SLOT, [hlib.SLOT])])]


def shapes():
    return CONTAINERS + TUPLES + (D3_SPINE if hlib.TIER == "thorough" else [])


def reachable(v, out):
    if isinstance(v, dict):
        out.append(v)
        for x in list(v.values()):
            reachable(x, out)
    elif isinstance(v, list):
        out.append(v)
        for x in list(v):
            reachable(x, out)
    elif isinstance(v, tuple):
        for x in v:
            reachable(x, out)
    return out


def poke_all(v):
    """Mutate every container reachable from v (user side)."""
    n = 0
    for c in reachable(v, []):
        if isinstance(c, dict):
            c["zz"] = 99
        else:
            c.append(99)
        n += 1
    return n


def ctxs(fam):
    return ["none", "object-buffered"] if fam.buffered else ["none"]


def alias_in(opi: int, vs: int, ci: int, x: int, y: int, v1: int, v2: int) -> bool:
    """
    post: _
    """
    env = get_env().reset()
    fam, which = PARTS[hlib.PART % len(PARTS)]
    name = pick(IN_OPS[which], opi)
    shape = pick(shapes(), vs)
    ctx = pick(ctxs(fam), ci)
    if name is None or shape is None or ctx is None:
        return finish(False, True)
    cls = fam.cls(which)
    doc = {"p": x, "s": [y]} if which == "dict" else [x, [y]]
    fam.write(env, "r", doc)
    value = fill(shape[1], Leaves(v1, v2))
    if name == "ctor":
        arg = {"q": value} if which == "dict" else [value]
        obj = fam.make(env, which, "r2", data=arg)
        res = "r2"

        def run():
            # data given to the constructor is in memory only until the first save
            if which == "dict":
                obj["t"] = 0
            else:
                obj.append(0)
    else:
        obj = fam.make(env, which, "r")
        res = "r"
        op = {o.name: o for o in ops.mutators(which)}[name]
        arg = value
        if name == "reset":
            arg = None

        def run():
            op.fn(obj, ops.A(v=value, w=v2, i=0, j=1))

    def body():
        try:
            run()
        except hlib.Crash:
            raise
        except Exception:
            return None
        snap = plain(obj())  # rebuilt now: a snapshot that aliases the argument would change with it
        n = poke_all(arg if arg is not None else value)
        return snap, n, obj()

    if ctx == "none":
        r = body()
    else:
        with obj.buffered:
            r = body()
    if r is None:
        return finish(False, True)
    snap, n, after = r
    case(cls.__name__, name, shape[0], ctx)
    if not same_tree(plain(after), plain(snap)):
        return finish(True, fail(lambda: f"{cls.__name__}.{name} with {shape[0]} (ctx {ctx}): mutating the user's argument afterwards changed the collection: {snap!r} -> {after!r}"))
    got = fam.read(env, res)
    if got is MISSING or not same_tree(got, plain(snap)):
        return finish(True, fail(lambda: f"{cls.__name__}.{name} with {shape[0]} (ctx {ctx}): backend holds {got!r}, collection was {snap!r} before the user's argument was mutated"))
    fresh = fam.make(env, which, res)()
    return finish(True, same_tree(fresh, plain(snap)) or fail(lambda: f"fresh object reads {fresh!r}, expected {snap!r}"))


OUT_OPS = ["call", "values", "items", "pop", "popitem", "del", "get-then-del"]


def alias_out(oi: int, ci: int, x: int, y: int) -> bool:
    """
    post: _
    """
    env = get_env().reset()
    fam, which = PARTS[hlib.PART % len(PARTS)]
    name = pick(OUT_OPS, oi)
    ctx = pick(ctxs(fam), ci)
    if name is None or ctx is None:
        return finish(False, True)
    if which == "list" and name in ("values", "items", "popitem"):
        return finish(False, True)
    cls = fam.cls(which)
    doc = {"a": {"p": x, "l": [y]}, "b": [x, {"q": y}]} if which == "dict" else [{"p": x, "l": [y]}, [x, {"q": y}]]
    fam.write(env, "r", doc)
    obj = fam.make(env, which, "r")
    k0 = "a" if which == "dict" else 0

    def body():
        must_be_plain = True
        if name == "call":
            out = obj()
        elif name == "values":
            out = list(obj.values())
        elif name == "items":
            out = [v for _, v in obj.items()]
        elif name == "pop":
            out = obj.pop(k0)
            must_be_plain = False
        elif name == "popitem":
            out = obj.popitem()[1]
            must_be_plain = False
        elif name == "del":
            out = obj[k0]
            del obj[k0]
            must_be_plain = False
        else:
            out = obj.get(k0) if which == "dict" else obj[k0]
            del obj[k0]
            must_be_plain = False
        snap = plain(obj())  # rebuilt now (see alias_in)
        ok_plain = (not must_be_plain) or is_plain(out)
        # mutate what the user holds
        if is_plain(out):
            poke_all(out)
        else:
            SC = hlib._sc()
            stack = [out]
            while stack:
                c = stack.pop()
                if isinstance(c, SC):
                    kids = list(c._data.values()) if isinstance(c._data, dict) else list(c._data)
                    try:
                        if isinstance(c._data, dict):
                            c["zz"] = 99
                        else:
                            c.append(99)
                    except hlib.Crash:
                        raise
                    except Exception:
                        pass
                    stack.extend(kids)
        return snap, ok_plain, obj()

    if ctx == "none":
        snap, ok_plain, after = body()
    else:
        with obj.buffered:
            snap, ok_plain, after = body()
    case(cls.__name__, name, ctx)
    if not ok_plain:
        return finish(True, fail(lambda: f"{cls.__name__}.{name}: result is not detached plain built-in data"))
    if not same_tree(plain(after), plain(snap)):
        return finish(True, fail(lambda: f"{cls.__name__}.{name} (ctx {ctx}): mutating the returned/removed value changed the collection: {snap!r} -> {after!r}"))
    got = fam.read(env, "r")
    return finish(True, (got is not MISSING and same_tree(got, plain(snap))) or fail(lambda: f"{cls.__name__}.{name} (ctx {ctx}): backend holds {got!r}, collection was {snap!r}"))


ASSIGN_OPS = {
    "dict": ["setitem_new", "update_map", "update_kwargs", "setdefault_new", "reset"],
    "list": ["append", "insert", "extend_tuple", "setitem", "iadd", "reset"],
}
SOURCES = ["same-tree-child", "other-collection-child", "other-collection-root", "popped-child"]


def alias_assign(si: int, opi: int, side: int, x: int, y: int) -> bool:
    """
    post: _
    """
    env = get_env().reset()
    fam, which = PARTS[hlib.PART % len(PARTS)]
    src = pick(SOURCES, si)
    name = pick(ASSIGN_OPS[which], opi)
    side = pick(["mutate-source", "mutate-destination"], side)
    if src is None or name is None or side is None:
        return finish(False, True)
    if which == "list" and name == "reset" and src == "same-tree-child":
        # reset([node]) with node = lst[0]: source and destination are the same position
        return finish(False, True)
    cls = fam.cls(which)
    doc = {"a": {"p": x, "l": [y]}, "b": y} if which == "dict" else [{"p": x, "l": [y]}, y]
    other = {"c": {"p": y, "l": [x]}}
    fam.write(env, "r", doc)
    fam.write(env, "o", other)
    dst = fam.make(env, which, "r")
    oth = fam.make(env, "dict", "o")
    k0 = "a" if which == "dict" else 0
    if src == "same-tree-child":
        node = dst[k0]
    elif src == "other-collection-child":
        node = oth["c"]
    elif src == "other-collection-root":
        node = oth
    else:
        node = dst[k0]
        del dst[k0]
    op = {o.name: o for o in ops.mutators(which)}[name]
    try:
        op.fn(dst, ops.A(v=node, w=0, i=0, j=1))
    except hlib.Crash:
        raise
    except Exception:
        return finish(False, True)
    case(cls.__name__, src, name, side)
    d0, o0 = dst(), oth()
    r0, ro0 = fam.read(env, "r"), fam.read(env, "o")
    if not same_tree(r0, plain(d0)):
        return finish(True, fail(lambda: f"{cls.__name__}.{name}({src}): backend {r0!r} != collection {d0!r}"))
    # locate the stored copy in dst
    if which == "dict":
        key = {"setitem_new": "q", "update_map": "q", "update_kwargs": "q", "setdefault_new": "q", "reset": "q"}[name]
        stored = dst[key]
    else:
        idx = {"append": -1, "insert": 0, "extend_tuple": -1, "setitem": 0, "iadd": -1, "reset": 0}[name]
        stored = dst[idx]
    if side == "mutate-source":
        try:
            node["zz"] = 99
        except hlib.Crash:
            raise
        except Exception:
            pass
        # the destination position must be unchanged (memory and backend)
        d1 = dst()
        pos = d1["q"] if which == "dict" else d1[idx]
        pos0 = d0["q"] if which == "dict" else d0[idx]
        if not same_tree(pos, pos0):
            return finish(True, fail(lambda: f"{cls.__name__}.{name}({src}): mutating the source node changed the stored copy: {pos0!r} -> {pos!r}"))
        r1 = fam.read(env, "r")
        p1 = r1["q"] if which == "dict" else r1[idx]
        if not same_tree(p1, pos0):
            return finish(True, fail(lambda: f"{cls.__name__}.{name}({src}): mutating the source node changed the stored copy in the backend: {pos0!r} -> {p1!r}"))
    else:
        stored["yy"] = 77
        want = copy_tree(d0)
        (want["q"] if which == "dict" else want[idx])["yy"] = 77
        d1 = dst()
        if src == "same-tree-child" and which == "dict":
            pass
        if not same_tree(d1, want):
            return finish(True, fail(lambda: f"{cls.__name__}.{name}({src}): mutating the stored copy gave {d1!r}, expected {want!r}"))
        r1 = fam.read(env, "r")
        if not same_tree(r1, want):
            return finish(True, fail(lambda: f"{cls.__name__}.{name}({src}): after mutating the stored copy the backend holds {r1!r}, expected {want!r}"))
        o1, ro1 = oth(), fam.read(env, "o")
        if not same_tree(o1, o0) or not same_tree(ro1, ro0):
            return finish(True, fail(lambda: f"{cls.__name__}.{name}({src}): mutating the stored copy changed the other collection: {o0!r} -> {o1!r} / backend {ro1!r}"))
    return finish(True, True)


def plan(tier):
    t = 300 if tier == "quick" else 1500
    return [
        {"fn": "alias_in", "nparts": len(PARTS), "timeout": t},
        {"fn": "alias_out", "nparts": len(PARTS), "timeout": t},
        {"fn": "alias_assign", "nparts": len(PARTS), "timeout": t},
    ]


def smoke(tier):
    out = []
    for part in range(len(PARTS)):
        for opi in range(8):
            out.append(("alias_in", (opi, (opi + part) % 14, part % 2, 1, 2, 3, 4), part, len(PARTS)))
        for oi in range(7):
            out.append(("alias_out", (oi, part % 2, 1, 2), part, len(PARTS)))
        for si in range(4):
            for opi in range(5):
                out.append(("alias_assign", (si, opi, (si + opi) % 2, 1, 2), part, len(PARTS)))
    return out


FUNCTIONS = [
    "synced_collections.data_types.synced_collection:SyncedCollection._from_base",
    "synced_collections.data_types.synced_dict:SyncedDict.__init__",
    "synced_collections.data_types.synced_dict:SyncedDict._to_base",
    "synced_collections.data_types.synced_dict:SyncedDict._update",
    "synced_collections.data_types.synced_dict:SyncedDict.values",
    "synced_collections.data_types.synced_dict:SyncedDict.items",
    "synced_collections.data_types.synced_list:SyncedList.__init__",
    "synced_collections.data_types.synced_list:SyncedList._to_base",
    "synced_collections.data_types.synced_list:SyncedList._update",
    "synced_collections.buffers.memory_buffered_collection:SharedMemoryFileBufferedCollection._load",
]
BOUNDS = {"quick": {"classes": 18, "taking_operations": IN_OPS, "argument_shapes": [s[0] for s in CONTAINERS], "returning_operations": OUT_OPS, "assignment_sources": SOURCES, "assignment_operations": ASSIGN_OPS, "contexts": "unbuffered, and obj.buffered for the buffered families"}}
BOUNDS["thorough"] = dict(BOUNDS["quick"], argument_shapes=[s[0] for s in CONTAINERS + D3_SPINE])
ASSUMPTIONS = ["environment models of vf/env_model.py", "all reachable containers are mutated at once (a single aliased container is enough to fail)"]
OUTSIDE = ["arguments deeper than 3", "user-defined Mapping/Sequence argument types (C19 covers their classification)"]
