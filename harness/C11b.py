"""C11 (Engine B part): the validator functions themselves, for ALL key strings and all
value trees up to a stated width/depth.

Every validator the concrete classes attach (`_all_validators`, read from the classes at run
time) is translated from its current AST by vf/kernel_smt.py over an abstract value tree:
each node has an uninterpreted concrete type (isinstance = predicate of the type, with the
real classes' subclass axioms), a symbolic length <= WIDTH, children / (key, child) pairs,
keys that are nodes of their own with an unbounded z3 String content.  Recursive calls are
composed through per-(function, node) summaries.  z3 then decides, per validator and per
distinct validator set of a class,

    accepts(v)  <=>  v contains nothing the collection type forbids

(non-string mapping keys; for the JSON families values that are not JSON-representable; for
the attribute-access families keys containing a dot), and that every rejection is a
TypeError/ValueError subclass.  A `sat` model is decoded into a real Python value and pushed
through the real validators before it is reported."""
import collections.abc as cabc
import time

import z3

from vf import kernel_smt as K
from vf.hlib import FAMILIES

BASE = (str, int, float, bool, type(None))


def validator_sets():
    """{tuple of validator functions: [class names]} over all concrete classes."""
    out = {}
    for f in FAMILIES:
        for which in ("dict", "list"):
            try:
                cls = f.cls(which)
            except Exception:
                continue
            key = tuple(cls._all_validators)
            out.setdefault(key, []).append((cls.__name__, f))
    return out


class Encoding:
    def __init__(self, width, depth, stats):
        self.w = K.World(width=width, depth=depth, extra_classes=(cabc.Mapping, cabc.Sequence) + BASE)
        self.root = self.w.new_node("v")
        self.stats = stats
        self.memo = {}
        self.cold = {}
        self.functions = set()
        self.bound_paths = 0

    def cold_map(self, R):
        if id(R) not in self.cold:
            self.cold[id(R)] = K.SMap(self.w, f"m{len(self.cold)}", list(R.abstract_type_identifiers) + [None], cold=True)
        return self.cold[id(R)]

    def resolver_maps(self):
        from synced_collections.utils import AbstractTypeResolver
        import sys

        for n, m in list(sys.modules.items()):
            if n.startswith("synced_collections"):
                for v in list(vars(m).values()):
                    if isinstance(v, AbstractTypeResolver):
                        self.cold_map(v)
        return self.cold

    def summary(self, fn, node):
        key = (fn, node.id)
        if key in self.memo:
            return self.memo[key]
        ex = K.Explorer(world=self.w, stats=self.stats)
        maps = self.resolver_maps()

        def thunk(ctx):
            it = K.Interp(ctx, world=self.w, summaries=self.summary, resolver_maps=maps)
            try:
                return it.call_python(fn, [node])
            finally:
                self.functions.update(it.functions_seen)

        paths = ex.run(thunk)
        groups = {}
        for p in paths:
            if p.kind == "return":
                v = p.value
                if isinstance(v, K.SBool):
                    groups.setdefault(("return", True), []).append(z3.And(p.cond, v.z))
                    groups.setdefault(("return", False), []).append(z3.And(p.cond, z3.Not(v.z)))
                    continue
                if not isinstance(v, (bool, str, int, type(None))):
                    raise K.Unsupported(f"summary of {getattr(fn, '__name__', fn)} returns {v!r}")
                g = ("return", v)
            elif p.kind == "raise":
                g = ("raise", p.value.cls)
            else:
                g = ("bound", None)
                self.bound_paths += 1
            groups.setdefault(g, []).append(p.cond)
        summ = []
        for (kind, val), conds in groups.items():
            summ.append((z3.simplify(z3.Or(*conds)), kind, K.SExc(val) if kind == "raise" else val))
        self.memo[key] = summ
        return summ

    # -- specification ---------------------------------------------------------------
    def isB(self, n):
        return self.w.isinst(n.T, BASE)

    def isM(self, n):
        return self.w.isinst(n.T, cabc.Mapping)

    def isS(self, n):
        return z3.And(self.w.isinst(n.T, cabc.Sequence), z3.Not(self.w.isinst(n.T, str)))

    def sane(self, n):
        """Types for which the forbidden-data specification is unambiguous: not both a
        mapping and a sequence, scalars are not mappings, the only scalar that is a
        Sequence is str."""
        c = [z3.Not(z3.And(self.isM(n), self.w.isinst(n.T, cabc.Sequence))), z3.Implies(self.isB(n), z3.Not(self.isM(n))),
             z3.Implies(z3.And(self.isB(n), self.w.isinst(n.T, cabc.Sequence)), self.w.isinst(n.T, str))]
        if n.depth < self.w.depth:
            for i in range(self.w.width):
                c.append(self.sane(n.child(i)))
        return z3.And(*c)

    def each(self, n, f):
        out = []
        if n.depth >= self.w.depth:
            return z3.BoolVal(True)
        for i in range(self.w.width):
            out.append(z3.Implies(n.len > i, f(n.key(i), n.child(i))))
        return z3.And(*out)

    def valid(self, n, json_values, no_dots):
        def key_ok(k):
            c = self.w.isinst(k.T, str)
            if no_dots:
                c = z3.And(c, z3.Not(z3.Contains(k.S, z3.StringVal("."))))
            return c

        leaf_ok = self.isB(n) if json_values else z3.BoolVal(True)
        return z3.If(self.isM(n), self.each(n, lambda k, c: z3.And(key_ok(k), self.valid(c, json_values, no_dots))),
                     z3.If(self.isS(n), self.each(n, lambda k, c: self.valid(c, json_values, no_dots)), leaf_ok))


SPEC_OF_VALIDATOR = {
    "require_string_key": dict(json_values=False, no_dots=False),
    "no_dot_in_key": dict(json_values=False, no_dots=True),
    "json_format_validator": dict(json_values=True, no_dots=False),
    "json_attr_dict_validator": dict(json_values=True, no_dots=True),
}


def class_spec(fam):
    """What the collection type forbids (see C11a.ASSUMPTIONS for Zarr)."""
    return dict(json_values=fam.kind != "zarr", no_dots=fam.attr)


class NotJSON:
    def __repr__(self):
        return "<NotJSON>"


class UserMapping(cabc.Mapping):
    def __init__(self, d):
        self._d = d

    def __getitem__(self, k):
        return self._d[k]

    def __iter__(self):
        return iter(self._d)

    def __len__(self):
        return len(self._d)

    def __repr__(self):
        return f"UserMapping({self._d!r})"


def decode(enc, model, n):
    """A real Python value with the node's type profile (None if it has no representative)."""
    w = enc.w

    def tv(e):
        return bool(model.eval(e, model_completion=True))

    def prof(c):
        return tv(w.subp(c)(n.T))

    ln = model.eval(n.len, model_completion=True).as_long()
    if tv(enc.isM(n)):
        d = {}
        for i in range(ln):
            k = n.key(i)
            if tv(w.isinst(k.T, str)):
                kv = model.eval(k.S, model_completion=True).as_string()
            elif tv(w.subp(int)(k.T)) and not tv(w.subp(bool)(k.T)):
                kv = 7 + i
            elif tv(w.subp(bool)(k.T)):
                kv = bool(i % 2)
            elif tv(w.subp(float)(k.T)):
                kv = 0.5 + i
            elif tv(w.subp(type(None))(k.T)):
                kv = None
            else:
                kv = (1, i)
            d[kv] = decode(enc, model, n.child(i))
        return d if prof(dict) or dict not in w.sub else UserMapping(d)
    if tv(enc.isS(n)):
        items = [decode(enc, model, n.child(i)) for i in range(ln)]
        return items
    if prof(str):
        return model.eval(n.S, model_completion=True).as_string()
    if prof(bool):
        return True
    if prof(int):
        return 3
    if prof(float):
        return 1.5
    if prof(type(None)):
        return None
    return NotJSON()


def engine_b(tier, seed=0):
    stats = K.Stats()
    width, depth = (2, 2) if tier == "quick" else (2, 3)
    out = {"obligations": 0, "discharged": 0, "violations": [], "inconclusive": [], "samples": [], "functions": set(), "validated": 0, "mismatch": [],
           "bounds": {"width": width, "depth": depth, "key_strings": "unbounded z3 String"}, "nodes": 0}
    t0 = time.time()
    try:
        enc = Encoding(width, depth, stats)
        sane = enc.sane(enc.root)
    except K.Unsupported as e:
        out["inconclusive"].append(f"encoding failed: {e}")
        out["stats"] = stats
        return out
    sets = validator_sets()
    funcs = {}
    for vs in sets:
        for f in vs:
            funcs[f.__name__] = f
    accept = {}
    for name, f in sorted(funcs.items()):
        try:
            summ = enc.summary(f, enc.root)
        except K.Unsupported as e:
            out["obligations"] += 1
            out["inconclusive"].append(f"{name}: outside the translated subset: {e}")
            continue
        acc = [c for c, kind, v in summ if kind == "return"]
        accept[name] = z3.Or(*acc) if acc else z3.BoolVal(False)
        ex = K.Explorer(world=enc.w, stats=stats)
        # every rejection is a TypeError / ValueError subclass
        out["obligations"] += 1
        bad_exc = [(c, v.cls) for c, kind, v in summ if kind == "raise" and not issubclass(v.cls, (TypeError, ValueError))]
        bad_bound = [c for c, kind, v in summ if kind == "bound"]
        ok = True
        for c, cls in bad_exc:
            r, s = ex.check([sane, c])
            if r != "unsat":
                ok = False
                out["violations"].append({"validator": name, "obligation": "rejections are TypeError/ValueError subclasses", "what": f"raises {cls.__name__}", "model": s.model() if r == "sat" else None, "expect_accept": False})
        for c in bad_bound:
            r, s = ex.check([sane, c])
            if r != "unsat":
                ok = False
                out["inconclusive"].append(f"{name}: a path needs elements beyond the unrolling bound")
        if ok:
            out["discharged"] += 1
        # accepts <=> nothing forbidden (the validator's own part of the specification)
        if name in SPEC_OF_VALIDATOR:
            spec = enc.valid(enc.root, **SPEC_OF_VALIDATOR[name])
            for direction, cons in (("accepts forbidden data", [accept[name], z3.Not(spec)]), ("rejects allowed data", [z3.Not(accept[name]), spec])):
                out["obligations"] += 1
                r, s = ex.check([sane] + cons)
                out["samples"].append({"validator": name, "obligation": direction, "result": r})
                if r == "unsat":
                    out["discharged"] += 1
                elif r == "sat":
                    out["violations"].append({"validator": name, "obligation": direction, "what": f"{name} {direction}", "model": s.model(), "expect_accept": direction.startswith("accepts")})
                else:
                    out["inconclusive"].append(f"{name} {direction}: solver answered {r}")
    # per distinct validator set of the classes
    for vs, classes in sets.items():
        names = [f.__name__ for f in vs]
        if any(n not in accept for n in names):
            continue
        acc = z3.And(*[accept[n] for n in names]) if names else z3.BoolVal(True)
        ex = K.Explorer(world=enc.w, stats=stats)
        for cname, fam in classes:
            spec = enc.valid(enc.root, **class_spec(fam))
            for direction, cons in (("accepts forbidden data", [acc, z3.Not(spec)]), ("rejects allowed data", [z3.Not(acc), spec])):
                out["obligations"] += 1
                r, s = ex.check([sane] + cons)
                if len(out["samples"]) < 14:
                    out["samples"].append({"class": cname, "validators": names, "obligation": direction, "result": r})
                if r == "unsat":
                    out["discharged"] += 1
                elif r == "sat":
                    out["violations"].append({"class": cname, "validators": names, "obligation": direction, "what": f"the validators of {cname} ({names}) {direction}", "model": s.model(), "expect_accept": direction.startswith("accepts")})
                else:
                    out["inconclusive"].append(f"{cname} {direction}: solver answered {r}")
    # decode + replay
    for v in out["violations"]:
        m = v.pop("model", None)
        if m is None:
            v["replay"] = {"outcome": "unknown", "detail": ["no model"]}
            continue
        try:
            val = decode(enc, m, enc.root)
        except Exception as e:
            v["replay"] = {"outcome": "undecodable", "detail": [repr(e)]}
            continue
        fs = [funcs[v["validator"]]] if "validator" in v else [funcs[n] for n in v["validators"]]
        exc = None
        for f in fs:
            try:
                f(val)
            except Exception as e:
                exc = e
                break
        real_accepts = exc is None
        v["value"] = repr(val)[:300]
        v["real"] = "accepted" if real_accepts else f"rejected with {type(exc).__name__}"
        if v["obligation"].startswith("rejections are"):
            reproduced = exc is not None and not isinstance(exc, (TypeError, ValueError))
        else:
            reproduced = real_accepts == v["expect_accept"]
        v["replay"] = {"outcome": "fail" if reproduced else "pass", "detail": [f"value {v['value']}: real validators {v['real']}"]}
    # translator validation: concrete values through the real validators and the encoding
    pool = [0, "a", "a.b", None, 1.5, True, {}, [], {"a": 1}, {"a.b": 1}, {1: 2}, {None: 0}, [{"a": [1]}], [{"a.b": 0}], [{1: 0}], {"a": {"b.c": 0}}, {"a": {2: 0}}, (1, 2), [[NotJSON()]],
            {"a": NotJSON()}, NotJSON(), {1, 2}, 1j, {"a": [1, {"x": None}]}, {"": 0}, {".": 0}, [["s", {"k": "v.w"}]], b"x"]
    for name, f in sorted(funcs.items()):
        if name not in accept:
            continue
        ex = K.Explorer(world=enc.w, stats=stats)
        for val in pool:
            try:
                pins = pin(enc, enc.root, val)
            except ValueError:
                continue
            try:
                f(val)
                real = True
            except Exception:
                real = False
            r, _ = ex.check([sane] + pins + [accept[name] if real else z3.Not(accept[name])])
            out["validated"] += 1
            if r != "sat":
                out["mismatch"].append(f"{name}({val!r}): real {'accepts' if real else 'rejects'}, the encoding says the opposite ({r})")
    out["functions"] = enc.functions
    out["nodes"] = len(enc.w.nodes)
    out["stats"] = stats
    out["wall_s"] = round(time.time() - t0, 2)
    return out


def pin(enc, n, val):
    """Constraints that make node n the abstract image of the concrete value."""
    w = enc.w
    cons = [w.subp(c)(n.T) == z3.BoolVal(isinstance(val, c)) for c in list(w.sub)]
    if isinstance(val, str):
        cons.append(n.S == z3.StringVal(val))
        cons.append(n.len == 0)
        return cons
    if isinstance(val, cabc.Mapping):
        items = list(val.items())
        if len(items) > w.width or (items and n.depth >= w.depth):
            raise ValueError("beyond the unrolling")
        cons.append(n.len == len(items))
        for i, (k, v) in enumerate(items):
            kn = n.key(i)
            cons += [w.subp(c)(kn.T) == z3.BoolVal(isinstance(k, c)) for c in list(w.sub)]
            if isinstance(k, str):
                cons.append(kn.S == z3.StringVal(k))
            cons += pin(enc, n.child(i), v)
        return cons
    if isinstance(val, cabc.Sequence):
        items = list(val)
        if len(items) > w.width or (items and n.depth >= w.depth):
            raise ValueError("beyond the unrolling")
        cons.append(n.len == len(items))
        for i, v in enumerate(items):
            cons += pin(enc, n.child(i), v)
        return cons
    cons.append(n.len == 0)
    return cons
