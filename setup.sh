#!/bin/bash
# MANIFEST.setup_cmd: build the overlay venv (py3.12 of /venv + crosshair-tool/z3 from the
# offline wheelhouse). Nothing is fetched from a network.
set -e
cd "$(dirname "$0")"
export PIP_NO_INDEX=1
if [ ! -x .venv/bin/python ] || ! .venv/bin/python -c "import crosshair, z3, synced_collections" >/dev/null 2>&1; then
  rm -rf .venv
  /venv/bin/python -m venv .venv
  SP=$(.venv/bin/python -c "import sysconfig; print(sysconfig.get_paths()['purelib'])")
  echo "import site; site.addsitedir('/venv/lib/python3.12/site-packages')" > "$SP/_verif_base.pth"
  .venv/bin/pip install -q --no-index --find-links /opt/veriftools/wheels crosshair-tool z3-solver
fi
.venv/bin/python -c "import crosshair, z3, synced_collections; print('overlay ok', crosshair.__version__, z3.get_version_string())"
# second overlay with numpy (NUMPY=True world of C19's Engine B); optional: C19 reports the
# numpy world as not examined if it is missing
if [ ! -x .venv-np/bin/python ] || ! .venv-np/bin/python -c "import numpy, z3, synced_collections" >/dev/null 2>&1; then
  rm -rf .venv-np
  /venv/bin/python -m venv .venv-np
  SP=$(.venv-np/bin/python -c "import sysconfig; print(sysconfig.get_paths()['purelib'])")
  echo "import site; site.addsitedir('/venv/lib/python3.12/site-packages')" > "$SP/_verif_base.pth"
  .venv-np/bin/pip install -q --no-index --find-links /opt/veriftools/wheels numpy z3-solver || echo "numpy overlay not built"
fi
.venv-np/bin/python -c "import numpy, z3; print('numpy overlay ok', numpy.__version__)" || true
