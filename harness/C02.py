"""C02 Read-through: every read reflects the backend's current content.

Engine A.
* `kinds`  -- inductive step over (R_old, R_new): memory holds an arbitrary document,
  the resource is rewritten (outside writer or a second object) with any other kind at
  the probed position; the root read and the retained child's read/write are checked.
* `reads`  -- every read operation, on the root and on a retained child, after a rewrite.
* `hist`   -- 3-token histories (own writes, outside restores of the *same bytes*,
  second-object writes, reads) -- adequacy of the invariant against hidden caches."""
from vf import hlib, ops, multi
from vf.hlib import FAMILIES, D1, Leaves, case, fail, fill, finish, get_env, pick, plain, eq_plain, at, copy_tree, kind_of, known

PID = "C02"
WHICH = ["dict", "list"]
PARTS = [(f, w) for f in FAMILIES for w in WHICH]


def wrap(which, V, s):
    return {"a": V, "b": s} if which == "dict" else [V, s]


FULL = {"JSON", "BufferedJSON", "MemoryBufferedJSON"}
D1_SMALL = [D1[0], D1[1], D1[3], D1[6]]  # leaf, null, {p}, [x]
STR_SHAPES = [("str", "yz"), ("str-empty", "")]  # a str is a Sequence: the merge must not treat it as a list


def kinds(ok: int, nk: int, wr: int, x: int, y: int, x2: int, y2: int, s1: int, s2: int) -> bool:
    """
    post: _
    """
    env = get_env().reset()
    fam, which = PARTS[hlib.PART % len(PARTS)]
    full = hlib.TIER == "thorough" or fam.name in FULL
    shapes = (D1 + STR_SHAPES) if full else (D1_SMALL + STR_SHAPES[:1])
    so = pick(shapes, ok)
    sn = pick(shapes, nk)
    if so is None or sn is None or wr < 0 or wr > (1 if full else 0):
        return finish(False, True)
    doc_old = wrap(which, fill(so[1], Leaves(x, y)), s1)
    doc_new = wrap(which, fill(sn[1], Leaves(x2, y2)), s2)
    w = multi.World(env, fam, which, doc_old, second=(wr == 1))
    w.obj["A"]()  # memory certainly holds R_old
    if wr == 0:
        w.outside(doc_new)
        writer = "outside"
    else:
        w.obj["B"].reset(copy_tree(doc_new))
        w.ref = copy_tree(doc_new)
        w._reattach(None, None)
        writer = "second-object"
    case(fam.cls(which).__name__, so[0], sn[0], writer)
    okind, nkind = kind_of(at(doc_old, w.cpath)), kind_of(at(doc_new, w.cpath))
    args = (ok, nk, wr, x, y, x2, y2, s1, s2)
    good, got, want = w.read_ok("A")
    if not good:
        if known(PID, {"harness": "kinds", "old_kind": okind, "new_kind": nkind, "handle": "root"}, args):
            return finish(True, True)
        return finish(True, fail(lambda: f"{fam.cls(which).__name__}: memory held {doc_old!r}, resource rewritten by {writer} to {doc_new!r}; root() returned {got!r}"))
    if w.att["Ac"]:
        good, got, want = w.read_ok("Ac")
        if not good:
            if known(PID, {"harness": "kinds", "old_kind": okind, "new_kind": nkind, "handle": "child-read"}, args):
                return finish(True, True)
            return finish(True, fail(lambda: f"{fam.cls(which).__name__}: retained child handle (position kept a {okind}) reads {got!r}, resource position holds {want!r}"))
        try:
            good, got, want = multi.probe_write(w, "Ac")
        except multi.Diverged as e:
            return finish(True, fail(lambda: f"write through retained child raised: {e!r}"))
        if not good:
            if known(PID, {"harness": "kinds", "old_kind": okind, "new_kind": nkind, "handle": "child-write"}, args):
                return finish(True, True)
            return finish(True, fail(lambda: f"{fam.cls(which).__name__}: write through retained child did not persist: resource {got!r}, expected {want!r}"))
    return finish(True, True)


def reads(tk: int, rd: int, hs: int, i: int, x: int, y: int, x2: int, s1: int, s2: int) -> bool:
    """
    pre: -3 <= i <= 3
    post: _
    """
    env = get_env().reset()
    classes = read_classes()
    fam, which = classes[hlib.PART % len(classes)]
    tkind = pick(WHICH, tk)
    h = pick(["A", "Ac"], hs)
    if tkind is None or h is None:
        return finish(False, True)
    rkind = which if h == "A" else tkind
    op = pick(ops.readers(rkind), rd)
    if op is None:
        return finish(False, True)
    if op.concrete:
        x, y, x2, s1, s2 = 1, 2, 3, 4, 5  # formatting a symbolic int would enumerate values
    T_old = {"p": x} if tkind == "dict" else [x, y]
    T_new = {"p": x2, "r": y} if tkind == "dict" else [x2]
    doc_old = wrap(which, T_old, s1)
    doc_new = wrap(which, T_new, s2)
    w = multi.World(env, fam, which, doc_old, second=False)
    w.obj["A"]()
    w.outside(doc_new)
    target_ref = at(w.ref, w.path(h))
    v_lib = copy_tree(target_ref) if op.name.endswith("_plain") else x2
    a_lib, a_ref = ops.A(v=v_lib, i=i, j=i + 2), ops.A(v=copy_tree(v_lib), i=i, j=i + 2)
    try:
        r_lib = ("ok", op.fn(w.obj[h], a_lib))
    except Exception as e:
        r_lib = ("exc", e)
    try:
        r_ref = ("ok", op.ref(target_ref, a_ref))
    except Exception as e:
        r_ref = ("exc", e)
    case(fam.cls(which).__name__, tkind, h, op.name)
    if r_lib[0] != r_ref[0]:
        return finish(True, fail(lambda: f"{op.name} via {h}: library {r_lib!r}, reference on the rewritten resource {r_ref!r}"))
    if r_lib[0] == "exc":
        return finish(True, hlib.exc_class_ok(r_lib[1], r_ref[1]) or fail(lambda: f"{op.name}: {r_lib[1]!r} vs {r_ref[1]!r}"))
    good = eq_plain(plain(r_lib[1]), plain(r_ref[1]))
    return finish(True, good or fail(lambda: f"{fam.cls(which).__name__}.{op.name} via {h} after rewrite {doc_old!r} -> {doc_new!r}: returned {plain(r_lib[1])!r}, fresh content gives {plain(r_ref[1])!r}"))


RELS = ["second-object", "other-file", "child-of-second", "child-of-other"]


def eqsync(rl: int, sd: int, on: int, tk: int, sc: int, x: int, y: int, x2: int, y2: int) -> bool:
    """Comparison between two synced operands: BOTH must reflect their backends.
    post: _
    """
    env = get_env().reset()
    classes = read_classes()
    fam, which = classes[hlib.PART % len(classes)]
    rel = pick(RELS, rl)
    side = pick(["other-right", "other-left"], sd)
    opn = pick(["eq", "ne"], on)
    tkind = pick(WHICH, tk)
    scen = pick(["both-rewritten", "only-other-rewritten"], sc)
    if None in (rel, side, opn, tkind, scen):
        return finish(False, True)
    other_res = "r" if rel in ("second-object", "child-of-second") else "r2"
    if scen == "only-other-rewritten" and other_res == "r":
        return finish(False, True)
    T_old = {"p": x} if tkind == "dict" else [x, y]
    T_new = {"p": x2} if tkind == "dict" else [x2, y2]
    doc_old, doc_new = wrap(which, T_old, 5), wrap(which, T_new, 5)
    fam.write(env, "r", doc_old)
    if other_res == "r2":
        fam.write(env, "r2", doc_old)
    me = fam.make(env, which, "r")
    other = fam.make(env, which, other_res)
    me()
    other()
    pos = "a" if which == "dict" else 0
    mine, theirs = me, other
    if rel.startswith("child"):
        mine, theirs = me[pos], other[pos]
    # outside writer
    fam.write(env, other_res, doc_new)
    if scen == "both-rewritten":
        fam.write(env, "r", doc_new)
        want_eq = True
    else:
        want_eq = eq_plain(T_old, T_new)
    a, b = (mine, theirs) if side == "other-right" else (theirs, mine)
    try:
        got = (a == b) if opn == "eq" else (a != b)
    except hlib.Crash:
        raise
    except Exception as e:
        return finish(True, fail(lambda: f"{fam.cls(which).__name__} {rel} {side} {opn}: raised {e!r}"))
    want = want_eq if opn == "eq" else (not want_eq)
    case(fam.cls(which).__name__, rel, side, opn, tkind, scen)
    if bool(got) != bool(want):
        return finish(True, fail(lambda: f"{fam.cls(which).__name__}: both operands loaded {doc_old!r}; then an outside writer ({scen}) left mine at {fam.read(env, 'r')!r} and the other [{rel}] at {fam.read(env, other_res)!r}; {side} {opn} gives {got!r}, fresh contents give {want!r}"))
    return finish(True, True)


JSON_PARTS = [(f, w) for f in hlib.JSON_FAMILIES for w in WHICH]


def faultread(tk: int, opi: int, k: int, rd: int, x: int, y: int, v: int) -> bool:
    """A mutation whose save failed (I/O error at file-system operation #k of the call) left
    the backend unchanged or changed: whatever it holds, the next reads reflect IT, not the
    in-memory state of the failed call.
    post: _
    """
    env = get_env().reset()
    fam, which = JSON_PARTS[hlib.PART % len(JSON_PARTS)]
    tkind = WHICH[(hlib.PART // len(JSON_PARTS)) % 2]
    if tk != 0:
        return finish(False, True)
    op = pick(ops.mutators(tkind), opi)
    k = pick([0, 1, 2, 3, 4, 5, 6, 7], k)
    how = pick(["call", "child-call", "eq"] if hlib.TIER != "thorough" else ["call", "child-call", "getitem", "len", "eq"], rd)
    if op is None or k is None or how is None:
        return finish(False, True)
    T = {"p": x} if tkind == "dict" else [x, y]
    doc = wrap(which, T, 5)
    fam.write(env, "r", doc)
    root = fam.make(env, which, "r")
    pos = "a" if which == "dict" else 0
    child = root[pos]
    root()
    env.fs.fault_at = env.fs.ops + k
    try:
        op.fn(child, ops.A(v=v, w=v, i=0, j=1))
        raised = None
    except hlib.Crash:
        raise
    except Exception as e:
        raised = e
    hit = env.fs.fault_at < env.fs.ops
    env.fs.fault_at = None
    if not hit or not isinstance(raised, OSError):
        return finish(False, True)
    now = fam.read(env, "r")
    if now is hlib.MISSING or now is hlib.CORRUPT:
        return finish(False, True)
    case(fam.cls(which).__name__, tkind, op.name, k, how)
    try:
        if how == "call":
            got, want = root(), now
        elif how == "child-call":
            got, want = child(), now[pos]
        elif how == "getitem":
            got, want = plain(root[pos]), now[pos]
        elif how == "len":
            got, want = len(child), len(now[pos])
        else:
            got, want = (root == copy_tree(now)), True
    except hlib.Crash:
        raise
    except Exception as e:
        return finish(True, fail(lambda: f"{fam.cls(which).__name__}: {op.name} failed with {raised!r}; the following {how} raised {e!r}"))
    if not eq_plain(got, want):
        return finish(True, fail(lambda: f"{fam.cls(which).__name__}: {op.name} on the nested {tkind} failed with {raised!r} (file-system operation #{k}); the backend holds {now!r} but the following {how} gives {got!r}"))
    return finish(True, True)


ALL_TOKENS = ["A.read", "A.write", "Ac.write", "out.same", "out.other", "B.write", "Ac.read", "B.reset-same"]


def tokens():
    return ALL_TOKENS if hlib.TIER == "thorough" else ALL_TOKENS[:6]


def read_classes():
    if hlib.TIER == "thorough":
        return PARTS
    return [p for p in PARTS if p[0].name in ("JSON", "BufferedJSON", "MemoryBufferedJSON", "Redis")]


HIST4 = False  # set by hist4 (thorough): 4-token histories on four classes


def hist_classes():
    if hlib.TIER == "thorough" and not HIST4:
        return PARTS
    return [(hlib.FAM["JSON"], "dict"), (hlib.FAM["JSON"], "list"), (hlib.FAM["BufferedJSON"], "dict"), (hlib.FAM["Redis"], "dict")]


def hist(tk: int, t1: int, t2: int, t3: int, x: int, y: int, z: int, v: int) -> bool:
    """
    post: _
    """
    env = get_env().reset()
    classes = hist_classes()
    fam, which = classes[hlib.PART % len(classes)]
    TOKENS = tokens()
    t0 = (hlib.PART // len(classes)) % len(TOKENS)  # first token fixed by the partition
    tkind = pick(WHICH, tk)
    toks = [TOKENS[t0], pick(TOKENS, t1), pick(TOKENS, t2)]
    if HIST4:
        toks.append(pick(TOKENS, t3))
    if tkind is None or None in toks:
        return finish(False, True)
    T = {"p": x} if tkind == "dict" else [x, y]
    doc0 = wrap(which, T, z)
    T1 = {"p": y, "r": x} if tkind == "dict" else [y]
    doc1 = wrap(which, T1, x)
    w = multi.World(env, fam, which, doc0, second=True)
    n = 0
    try:
        for t in toks:
            n += 1
            if t == "A.read" or t == "Ac.read":
                h = t[:-5]
                if not w.att[h]:
                    return finish(False, True)
                good, got, want = w.read_ok(h)
                if not good:
                    return finish(True, fail(lambda: f"{fam.cls(which).__name__} history {toks[:n]}: {h}() returned {got!r}, resource holds {want!r}"))
            elif t in ("A.write", "B.write", "Ac.write"):
                h = t[:-6]
                if not w.att[h]:
                    return finish(False, True)
                k = w.kind(h)
                op = ops.DICT_MUTATORS[1] if k == "dict" else ops.LIST_MUTATORS[4]
                w.mutate(h, op, ops.A(v=v), ops.A(v=v))
                good, got, want = w.resource_ok()
                if not good:
                    return finish(True, fail(lambda: f"{fam.cls(which).__name__} history {toks[:n]}: resource {got!r}, reference {want!r}"))
            elif t == "out.same":
                w.outside(copy_tree(doc0))
            elif t == "out.other":
                w.outside(copy_tree(doc1))
            elif t == "B.reset-same":
                w.obj["B"].reset(copy_tree(doc0))
                w.ref = copy_tree(doc0)
                w._reattach("B", ops.DICT_MUTATORS[-1])
    except multi.Diverged as e:
        return finish(True, fail(lambda: f"{fam.cls(which).__name__} history {toks[:n]}: {e!r}"))
    case(fam.cls(which).__name__, tkind, *toks)
    for h in w.attached():
        good, got, want = w.read_ok(h)
        if not good:
            return finish(True, fail(lambda: f"{fam.cls(which).__name__} after history {toks}: {h}() returned {got!r}, resource holds {want!r}"))
    return finish(True, True)


def hist4(tk: int, t1: int, t2: int, t3: int, x: int, y: int, z: int, v: int) -> bool:
    """Four-token histories (thorough tier, four classes).
    post: _
    """
    global HIST4
    HIST4 = True
    try:
        return hist(tk, t1, t2, t3, x, y, z, v)
    finally:
        HIST4 = False


def plan(tier):
    if tier == "quick":
        return [
            {"fn": "kinds", "nparts": len(PARTS), "timeout": 300},
            {"fn": "reads", "nparts": 8, "timeout": 300},
            {"fn": "eqsync", "nparts": 8, "timeout": 300},
            {"fn": "faultread", "nparts": 2 * len(JSON_PARTS), "timeout": 300},
            {"fn": "hist", "nparts": 4 * 6, "timeout": 300},
        ]
    return [
        {"fn": "kinds", "nparts": len(PARTS), "timeout": 1500},
        {"fn": "reads", "nparts": len(PARTS), "timeout": 1500},
        {"fn": "eqsync", "nparts": len(PARTS), "timeout": 1500},
        {"fn": "faultread", "nparts": 2 * len(JSON_PARTS), "timeout": 1500},
        {"fn": "hist", "nparts": len(PARTS) * len(ALL_TOKENS), "timeout": 900},
        {"fn": "hist4", "nparts": 4 * len(ALL_TOKENS), "timeout": 900},
    ]


def smoke(tier):
    out = []
    n = len(PARTS)
    for part in range(0, n):
        out.append(("kinds", (3, 4, part % 2, 1, 2, 3, 4, 5, 6), part, n))
        out.append(("kinds", (6, 7, 0, 1, 2, 1, 4, 5, 5), part, n))
    for part in range(8):
        for rd in range(18):
            out.append(("reads", (part % 2, rd, rd % 2, 0, 1, 2, 3, 5, 6), part, 8))
    for part in range(2 * len(JSON_PARTS)):
        for k in range(2, 8):
            out.append(("faultread", (0, (k * 5 + part) % 17, k, k % 3, 1, 2, 3), part, 2 * len(JSON_PARTS)))
    ne = 8 if tier == "quick" else len(PARTS)
    for part in range(ne):
        for rl in range(4):
            for sd in range(2):
                for on in range(2):
                    out.append(("eqsync", (rl, sd, on, part % 2, (rl + sd) % 2, 1, 2, 3, 4), part, ne))
    out.append(("hist", (0, 2, 4, 0, 1, 2, 3, 9), 0, 24))
    out.append(("hist", (1, 3, 5, 1, 1, 2, 3, 9), 13, 24))
    return out


FUNCTIONS = [
    "synced_collections.data_types.synced_collection:SyncedCollection._load",
    "synced_collections.data_types.synced_collection:SyncedCollection.__getitem__",
    "synced_collections.data_types.synced_collection:SyncedCollection.__iter__",
    "synced_collections.data_types.synced_collection:SyncedCollection.__len__",
    "synced_collections.data_types.synced_collection:SyncedCollection.__call__",
    "synced_collections.data_types.synced_collection:SyncedCollection.__eq__",
    "synced_collections.data_types.synced_collection:SyncedCollection.__repr__",
    "synced_collections.data_types.synced_collection:SyncedCollection.__str__",
    "synced_collections.data_types.synced_dict:SyncedDict._update",
    "synced_collections.data_types.synced_dict:SyncedDict.keys",
    "synced_collections.data_types.synced_dict:SyncedDict.values",
    "synced_collections.data_types.synced_dict:SyncedDict.items",
    "synced_collections.data_types.synced_dict:SyncedDict.get",
    "synced_collections.data_types.synced_list:SyncedList._update",
    "synced_collections.data_types.synced_list:SyncedList.__reversed__",
    "synced_collections.backends.collection_json:JSONCollection._load_from_resource",
    "synced_collections.buffers.buffered_collection:BufferedCollection._load",
    "synced_collections.buffers.memory_buffered_collection:SharedMemoryFileBufferedCollection._load",
]
BOUNDS = {
    "quick": {"classes": 18, "kind_pairs": "8 x 8 (leaf, null, {}, {p}, {p,q}, [], [x], [x,y]) at the probed position + a sibling leaf that may change", "writers": ["outside", "second object"], "reads": "18 dict + 18 list read operations on root and retained child", "kind_pairs_note": "full 8x8 and both writers for the 3 non-attr JSON families; leaf/null/{p}/[x] and the outside writer for the other 12 classes", "reads_classes": 8, "histories": "3 tokens over 6, 4 classes"},
    "thorough": {"classes": 18, "histories": "3 tokens over 8 on 18 classes; 4 tokens over 8 on 4 classes"},
}
ASSUMPTIONS = [
    "environment models of vf/env_model.py (file store, structural JSON codec, fake Redis/MongoDB/Zarr)",
    "leaves are symbolic ints: a change between ==-equal values of different JSON type (1 -> True) is not demanded here (C12 covers type exactness)",
    "concrete key alphabet (key-parametricity outside validators/AttrDict)",
]
OUTSIDE = ["depth > 2 at the probed position", "more than one changed position besides the sibling", "histories longer than 3 (4 thorough) tokens"]
