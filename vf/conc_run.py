"""Driver shared by the Engine C checks (C09, C13, C14, C10b): runs decide_pair over a
list of programs in worker processes, applies known findings, writes evidence."""
import json
import multiprocessing as mp
import os
import time

from . import conc, findings, hlib
from .run import write_evidence, save_replay


def _work(item):
    idx, spec = item
    deadline = float(os.environ.get("VF_DEADLINE_TS", "0") or 0)
    if deadline and time.time() > deadline:
        return {"program": f"{spec['fam']} {spec['which']} [{spec['relation']}] {spec['op1']} || {spec['op2']}", "verdict": "not-explored (time budget)", "queries": 0, "solver_s": 0, "replays": 0, "events": 0, "witnesses": [], "spec": spec}
    fam = hlib.FAM[spec["fam"]]
    prog = conc.Prog(fam, spec["which"], spec["relation"], spec["op1"], spec["op2"], ctx=tuple(spec["ctx"]) if spec.get("ctx") else None,
                     outcome_keys=spec.get("outcome_keys"), ignore_values=spec.get("ignore_values", ()))
    is_known = None
    if spec.get("_mod") and spec.get("_pid"):
        try:
            import importlib

            hmod = importlib.import_module(spec["_mod"])
            F = findings.Findings()
            pub = {k: v for k, v in spec.items() if not k.startswith("_")}
            def is_known(viol):
                try:
                    return F.match(spec["_pid"], hmod.fingerprint({"spec": pub, "violation": viol})) is not None
                except Exception:
                    return False
        except Exception:
            is_known = None
    try:
        r = conc.decide_pair(prog, max_replays=spec.get("max_replays", 8), variants=spec.get("variants", False), check_deadlock=spec.get("deadlock", True), cycles=spec.get("cycles", True), is_known=is_known)
    except BaseException as e:  # noqa
        import traceback

        r = {"program": prog.label(), "verdict": "error", "error": "".join(traceback.format_exception(type(e), e, e.__traceback__))[-1500:], "queries": 0, "solver_s": 0, "replays": 0, "events": 0, "witnesses": []}
    r["spec"] = {k: v for k, v in spec.items() if not k.startswith("_")}
    try:
        env = hlib.env_model.ENV
        if env is not None and env._tmp:
            import shutil

            shutil.rmtree(env._tmp, ignore_errors=True)
    except Exception:
        pass
    return r


def run(pid, tier, seed, specs, mod, fingerprint, emit=True):
    """specs: list of program dicts.  fingerprint(result) -> dict used to match
    known_findings.json for a violated program."""
    t0 = time.time()
    if not os.environ.get("VF_DEADLINE_TS"):
        os.environ["VF_DEADLINE_TS"] = str(t0 + float(os.environ.get("VF_BUDGET_S", "1200" if tier == "quick" else "2400")))
    F = findings.Findings()
    items = list(enumerate([dict(sp, _pid=pid, _mod=getattr(fingerprint, "__module__", mod.__name__)) for sp in specs]))
    if seed:
        import random

        random.Random(seed).shuffle(items)
    ctx = mp.get_context("fork")
    with ctx.Pool(min(16, max(1, len(items))), maxtasksperchild=8) as pool:
        results = pool.map(_work, items, chunksize=1)
    code = 0
    out = []
    known = {}
    counts = {}
    viol = 0
    errors = []
    for r in results:
        counts[r["verdict"]] = counts.get(r["verdict"], 0) + 1
        if r["verdict"] == "error":
            errors.append(f"{r['program']}: {r['error'][-600:]}")
        if r["verdict"] == "violated":
            fp = fingerprint(r)
            ent = F.match(pid, fp)
            if ent is not None:
                known.setdefault(ent["id"], {"what": ent["what"], "programs": []})["programs"].append(r["program"])
                continue
            viol += 1
            path = save_replay(pid, {"property": pid, "engine": "C", "program": r["program"], "spec": r["spec"], "violation": r["violation"], "fingerprint": fp})
            out.append(f"VIOLATION property={pid} replay={path}")
            code = 1
    if code == 0 and errors:
        for e in errors[:5]:
            out.append(f"HARNESS-ERROR property={pid} {e}")
        code = 2
    for k, v in sorted(known.items()):
        out.append(f"KNOWN-FINDING: property={pid} {v['what']} [{k}; {len(v['programs'])} programs, e.g. {v['programs'][0]}]")
    nunsat = counts.get("unsat", 0)
    total = len(results)
    exhaustive = code == 0 and (nunsat + sum(len(v["programs"]) for v in known.values())) == total
    samples = [{"program": r["program"], "verdict": r["verdict"], "events": r["events"], "queries": r["queries"], "replays": r["replays"]} for r in results[:: max(1, total // 10)]][:12]
    cov = {
        "states": max(1, sum(r["events"] for r in results)),
        "transitions": max(1, sum(r["queries"] for r in results)),
        "traces_validated_against_impl": sum(r["replays"] for r in results),
        "evaluations": max(1, total),
        "distinct_nontrivial": total,
        "rule": "one evaluation = one two-thread program (class, handle relation, operation pair, buffering context) decided by z3 over ALL interleavings of its recorded events: states = recorded events (library lines with shared accesses, lock events, file operations), transitions = z3 ordering queries (one per pair of conflict classes, plus circular-wait queries), traces_validated_against_impl = witness orders forced on real threads; every program is distinct",
        "samples": samples or ["<none>"],
        "exhaustive": exhaustive,
        "verdict_counts": counts,
        "programs": total,
        "solver_queries": sum(r["queries"] for r in results),
        "solver_seconds": round(sum(r["solver_s"] for r in results), 2),
        "known_findings_hit": {k: {"programs": len(v["programs"]), "examples": v["programs"][:5]} for k, v in known.items()},
        "unresolved_candidates": [r["program"] for r in results if r["verdict"] in ("candidates-unresolved", "unknown")][:40],
        "candidates_replayed_serial": [r["program"] for r in results if r["verdict"] == "candidates-serial"][:40],
        "functions_encoded": "every library line executed by the traced operations (recorded from /repo's current source on this run); shared locations derived from the current AST: " + ", ".join(sorted(__import__("vf.order_smt", fromlist=["x"]).assigned_attrs())),
        "bounds": getattr(mod, "BOUNDS", {}).get(tier, {}),
        "outside_the_claim": getattr(mod, "OUTSIDE", []),
        "verdict": {0: "holds-within-bounds" if exhaustive else "no-violation-found (some candidate cycles replayed to serial outcomes or stayed unresolved)", 1: "violated", 2: "harness-error"}[code],
    }
    ev = {"property_id": pid, "tier": tier, "seed": seed, "level": "model_checking", "coverage": cov, "assumptions": getattr(mod, "ASSUMPTIONS", []), "wall_s": round(time.time() - t0, 2), "violations": viol}
    if not emit:
        return {"code": code, "coverage": cov, "lines": out, "violations": viol, "wall_s": ev["wall_s"]}
    write_evidence(pid, ev)
    for line in out:
        print(line)
    print(f"SUMMARY property={pid} tier={tier} verdict={cov['verdict']} programs={total} counts={counts} queries={cov['solver_queries']} solver_s={cov['solver_seconds']} replays={cov['traces_validated_against_impl']} wall_s={ev['wall_s']}")
    return code
