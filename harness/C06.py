"""C06 Objects on one file share one buffered state; the flush keeps all their writes.

Engine A, bounded programs: two (thorough: three) objects bound to one file inside a
common buffered state -- one backend-wide context, or per-object contexts entered
together and exited in any order -- and a program of reads and writes assigned to the
objects.  A read through any object must see every earlier write, the file written on
leaving the buffered state must contain every write, and the buffer must be empty.
No observation beyond the programmed reads (an extra read would refresh an object)."""
from vf import hlib, ops, bufprog
from vf.hlib import BUFFERED_FAMILIES, MISSING, case, fail, finish, get_env, pick, plain, eq_plain, copy_tree, known

PID = "C06"
WHICH = ["dict", "list"]
PARTS = [(f, w) for f in BUFFERED_FAMILIES for w in WHICH]
ACTIONS = ["read", "write-new", "write-replace", "write-nested", "clear", "write-restore", "reset", "read-item"]
CTX = ["backend", "objects-exit-A-first", "objects-exit-B-first", "objects-entered-B-first", "backend-around-objects"]


VARIANT = None  # "four" (thorough prog4): 4-step programs, 6 actions, one class per strategy; "three-objects" (thorough prog3o)


def nobj():
    return 3 if VARIANT == "three-objects" else 2


def nsteps():
    return 4 if VARIANT == "four" else 3


def parts():
    if VARIANT == "four":
        return [p for p in PARTS if not p[0].attr and p[1] == "dict"]
    if VARIANT == "three-objects":
        return [p for p in PARTS if not p[0].attr and p[1] == "dict"]
    if hlib.TIER == "thorough":
        return PARTS
    return [p for p in PARTS if not p[0].attr]  # the attribute-access variants share the buffer code


def actions():
    if VARIANT == "four":
        return ["read", "write-new", "clear", "write-restore"]
    if VARIANT is not None:
        return ["read", "write-new", "write-replace", "clear", "write-restore"]
    return ACTIONS if hlib.TIER == "thorough" else ACTIONS[:6]


def prog(ci: int, t1: int, t2: int, t3: int, t4: int, t5: int, pre: int) -> bool:
    """
    post: _
    """
    env = get_env().reset()
    P = parts()
    fam, which = P[hlib.PART % len(P)]
    ctx = pick(CTX, ci)
    names = ["A", "B", "C"][: nobj()]
    toks = [(o, a) for o in names for a in actions()]
    first = toks[(hlib.PART // len(P)) % len(toks)] if hlib.NPARTS > len(P) else None
    if first is not None:
        sel = [first] + [pick(toks, t) for t in (t2, t3, t4, t5)[: nsteps() - 1]]
    else:
        sel = [pick(toks, t) for t in (t1, t2, t3, t4, t5)[: nsteps()]]
    pre = pick(["none", "A-loaded-before", "B-used-buffered-before"], pre)
    if ctx is None or None in sel or pre is None:
        return finish(False, True)
    return ops.native(_run, env, fam, which, ctx, sel, pre, names, (ci, t1, t2, t3, t4, t5, pre))


def prog4(ci: int, t1: int, t2: int, t3: int, t4: int, t5: int, pre: int) -> bool:
    """Four-step programs (thorough tier).
    post: _
    """
    global VARIANT
    VARIANT = "four"
    try:
        return prog(ci, t1, t2, t3, t4, t5, pre)
    finally:
        VARIANT = None


def prog3o(ci: int, t1: int, t2: int, t3: int, t4: int, t5: int, pre: int) -> bool:
    """Three objects on one file (thorough tier).
    post: _
    """
    global VARIANT
    VARIANT = "three-objects"
    try:
        return prog(ci, t1, t2, t3, t4, t5, pre)
    finally:
        VARIANT = None


def _run(env, fam, which, ctx, sel, pre, names, args):
    w = bufprog.BufWorld(env, fam, which)
    doc = {"a": {"p": 1}, "p": 2} if which == "dict" else [{"p": 1}, 2]
    w.add_file("f", doc)
    for n in names:
        w.add_obj(n, "f")
    if pre == "A-loaded-before":
        w.objs["A"]()
    elif pre == "B-used-buffered-before":
        with w.objs["B"].buffered:
            w.objs["B"]()
    log = [f"pre:{pre}", f"ctx:{ctx}"]
    try:
        if ctx == "backend":
            w.enter_backend()
        elif ctx == "objects-entered-B-first":
            for n in reversed(names):
                w.enter_obj(n)
        elif ctx == "backend-around-objects":
            w.enter_backend()
            for n in names:
                w.enter_obj(n)
        else:
            for n in names:
                w.enter_obj(n)
        val = 10
        for o, act in sel:
            val += 1
            log.append(f"{o}.{act}")
            obj = w.objs[o]
            ref = w.ref["f"]
            if act == "read":
                got = obj()
                if not eq_plain(got, plain(ref)):
                    if known(PID, {"family": fam.buffered, "what": "read"}, args):
                        return finish(True, True)
                    return finish(True, fail(lambda: f"{w.cls.__name__} {log}: {o}() returned {got!r}; all earlier writes give {ref!r}"))
            elif act == "read-item":
                k = "p" if which == "dict" else 1
                if (which == "dict" and k not in ref) or (which == "list" and len(ref) < 2):
                    return finish(False, True)
                got = obj[k]
                if not eq_plain(plain(got), plain(ref[k])):
                    if known(PID, {"family": fam.buffered, "what": "read"}, args):
                        return finish(True, True)
                    return finish(True, fail(lambda: f"{w.cls.__name__} {log}: {o}[{k!r}] returned {got!r}; all earlier writes give {ref[k]!r}"))
            elif act == "write-new":
                if which == "dict":
                    obj[f"k{val}"] = val
                    ref[f"k{val}"] = val
                else:
                    obj.append(val)
                    ref.append(val)
            elif act == "write-replace":
                k = "p" if which == "dict" else 1
                if which == "list" and len(ref) < 2:
                    return finish(False, True)
                obj[k] = val
                ref[k] = val
            elif act == "write-restore":
                # put the originally loaded value back: the content may return to exactly
                # the bytes the buffer entry was created with
                k = "p" if which == "dict" else 1
                if which == "list" and len(ref) < 2:
                    return finish(False, True)
                obj[k] = 2
                ref[k] = 2
            elif act == "clear":
                obj.clear()
                ref.clear()
            elif act == "reset":
                new = {"r": val} if which == "dict" else [val]
                obj.reset(copy_tree(new))
                ref.clear()
                if which == "dict":
                    ref.update(new)
                else:
                    ref.extend(new)
            else:
                k = "a" if which == "dict" else 0
                if (which == "dict" and k not in ref) or (which == "list" and not ref) or not isinstance(ref[k], dict):
                    return finish(False, True)
                obj[k][f"n{val}"] = val
                ref[k][f"n{val}"] = val
        # leave the common buffered state
        if ctx == "objects-exit-A-first":
            while w.stack:
                w.exit_at(0)
        else:
            while w.stack:
                w.exit_innermost()
    except hlib.Crash:
        raise
    except Exception as e:
        if known(PID, {"family": fam.buffered, "raised": type(e).__name__}, args):
            return finish(True, True)
        return finish(True, fail(lambda: f"{w.cls.__name__} {log}: raised {e!r}"))
    case(w.cls.__name__, *log)
    good, got, want = w.file_ok("f")
    if not good:
        writers = sorted({o for o, a in sel if a.startswith("write")})
        readers_only = sorted({o for o, a in sel} - set(writers))
        fp = {"family": fam.buffered, "what": "flush", "pure_reader_present": bool(readers_only), "pre": pre}
        if known(PID, fp, args):
            return finish(True, True)
        return finish(True, fail(lambda: f"{w.cls.__name__} {log}: after leaving the buffered state the file holds {got!r}; all writes give {want!r}"))
    size, recomputed, entries = w.buffer_state()
    if size != 0 or entries != 0:
        return finish(True, fail(lambda: f"{w.cls.__name__} {log}: buffer not empty after exit (size {size}, entries {entries})"))
    for n in names:
        got = w.objs[n]()
        if not eq_plain(got, plain(w.ref["f"])):
            return finish(True, fail(lambda: f"{w.cls.__name__} {log}: afterwards {n}() returns {got!r}, file holds {w.ref['f']!r}"))
    return finish(True, True)


def plan(tier):
    if tier == "quick":
        return [{"fn": "prog", "nparts": 4 * 12, "timeout": 300}]  # class x first token (2 objects x 6 actions)
    return [{"fn": "prog", "nparts": len(PARTS) * 16, "timeout": 900},  # class x first token (2 objects x 8 actions)
            {"fn": "prog4", "nparts": 2 * 8, "timeout": 900},  # one dict class per strategy x first token (2 objects x 4 actions)
            {"fn": "prog3o", "nparts": 2 * 15, "timeout": 900}]  # one dict class per strategy x first token (3 objects x 5 actions)


def smoke(tier):
    out = []
    for part in range(48):
        for ci in range(5):
            for t in range(0, 12, 3):
                out.append(("prog", (ci, t, (t + 3) % 12, (t + 5) % 12, 0, 0, (ci + t) % 3), part, 48))
    return out


FUNCTIONS = [
    "synced_collections.buffers.file_buffered_collection:FileBufferedCollection._load_from_buffer",
    "synced_collections.buffers.file_buffered_collection:FileBufferedCollection._flush_buffer",
    "synced_collections.buffers.serialized_file_buffered_collection:SerializedFileBufferedCollection._flush",
    "synced_collections.buffers.serialized_file_buffered_collection:SerializedFileBufferedCollection._save_to_buffer",
    "synced_collections.buffers.serialized_file_buffered_collection:SerializedFileBufferedCollection._load_from_buffer",
    "synced_collections.buffers.memory_buffered_collection:SharedMemoryFileBufferedCollection._flush",
    "synced_collections.buffers.memory_buffered_collection:SharedMemoryFileBufferedCollection._save_to_buffer",
    "synced_collections.buffers.memory_buffered_collection:SharedMemoryFileBufferedCollection._load_from_buffer",
]
BOUNDS = {"quick": {"classes": 8, "objects_on_one_file": 2, "contexts": CTX, "pre_histories": ["none", "A-loaded-before", "B-used-buffered-before"], "classes_quick": "BufferedJSON and MemoryBufferedJSON dict/list (the attribute-access variants share the buffer code)", "program": "3 tokens over {A,B} x " + str(ACTIONS[:6])},
          "thorough": {"prog": "8 classes, 3 tokens over {A,B} x " + str(ACTIONS), "prog4": "BufferedJSONDict and MemoryBufferedJSONDict, 4 tokens over {A,B} x [read, write-new, clear, write-restore]", "prog3o": "the same two classes, three objects, 3 tokens over {A,B,C} x the same five actions"}}
ASSUMPTIONS = ["finite selector space explored exhaustively through the solver's path tree; decided programs run the real code natively with concrete values", "environment models of vf/env_model.py; default capacity"]
OUTSIDE = ["more than 3 objects, more than 3 (4) tokens", "objects in *different* buffering states (documented as unsupported by the library)"]
