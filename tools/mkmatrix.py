#!/usr/bin/env python3
"""Regenerate seeded/MATRIX.md from the raw run logs in seeded/runs/*.txt (one line per
`tools/mut.sh` run: '<seed> <check> rc=<n> viol=<n> :: ...').  Later files override earlier
ones for the same (seed, check) pair."""
import glob, json, os, re
R = os.path.dirname(os.path.dirname(os.path.abspath(__file__)))
runs = {}
for f in sorted(glob.glob(os.path.join(R, "seeded/runs/*.txt"))):
    for line in open(f):
        m = re.match(r"(C\d\d-m\d+) (C\d\d) (rc=(\d+) viol=(\d+)|APPLY-FAILED)", line)
        if not m:
            continue
        seed, chk = m.group(1), m.group(2)
        if m.group(3) == "APPLY-FAILED":
            runs[(seed, chk)] = ("apply-failed", os.path.basename(f))
        else:
            rc, v = int(m.group(4)), int(m.group(5))
            runs[(seed, chk)] = ({0: "missed", 1: "CAUGHT", 2: "harness-error", 3: "inconclusive"}.get(rc, f"rc={rc}") + (f" ({v} violations)" if rc == 1 else ""), os.path.basename(f))
seeds = sorted(d for d in os.listdir(os.path.join(R, "seeded")) if re.match(r"C\d\d-m\d+$", d))
rows, caught, valid = [], 0, 0
for s in seeds:
    meta = json.load(open(os.path.join(R, "seeded", s, "meta.json")))
    own = s.split("-")[0]
    res = {c: r for (sd, c), r in runs.items() if sd == s}
    obsolete = "status_on_head" in meta
    any_caught = any(r[0].startswith("CAUGHT") for r in res.values())
    if not obsolete:
        valid += 1
        caught += any_caught
    cells = "; ".join(f"{c}: {r[0]}" for c, r in sorted(res.items())) or "not run"
    rows.append(f"| {s} | {meta.get('summary', '')[:110].replace('|', '/')}… | {'obsolete on HEAD' if obsolete else ('caught' if any_caught else 'NOT caught')} | {cells} |")
out = ["# Seeded changes x checks", "",
       f"{len(seeds)} seeded changes; {valid} valid on /repo HEAD ({len(seeds) - valid} obsolete after the fix: commits); {caught} of the valid ones are caught by at least one registered quick check (own property's check unless another is named).", "",
       "| change | what it does | status | runs (check: result) |", "|---|---|---|---|"] + rows
open(os.path.join(R, "seeded/MATRIX.md"), "w").write("\n".join(out) + "\n")
print(out[2])
