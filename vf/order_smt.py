"""Engine C: interleavings.

1. trace   -- each operation of a small program is executed on the real library (real
              files, real json) under a line tracer; the events are the executed library
              lines (with the shared locations their AST touches, resolved to objects
              from the frame), lock acquisitions/releases (logging lock proxies around
              real RLocks) and file operations (logging FS shim).
2. solve   -- one z3 integer position per event; program order, mutual exclusion of
              critical sections on the same lock, and the negated property as an order
              pattern: a conflict cycle between the two operations (non-serializable)
              or a reachable circular wait (deadlock).  `unsat` is z3's verdict over all
              interleavings of these event sequences.
3. replay  -- a witness order is forced on real threads by a baton scheduler driven by
              the same tracer; only a reproduced non-serial outcome / hang is a
              violation.
"""
import ast
import os
import sys
import threading
import time

import z3

LIB_ROOT = os.path.join(os.environ.get("VF_REPO", "/repo"), "synced_collections")

MUTATING_METHODS = {"pop", "popitem", "clear", "update", "append", "extend", "insert", "remove", "setdefault", "sort", "reverse", "__setitem__", "__delitem__", "add", "discard"}
BUF_ATTRS = {"_buffer", "_CURRENT_BUFFER_SIZE", "_buffered_collections", "_BUFFER_CAPACITY"}
# idempotent registries / memo tables: every write stores a pure function of the key, so the
# order of accesses cannot change any outcome (type_map behaviour is C19's subject)
BENIGN_ATTRS = {"type_map", "_locks", "_all_validators", "_thread_lock", "_threading_support_is_active", "_BUFFER_LOCK"}


# ----------------------------------------------------------------------------------
# static part: which shared locations does a source line touch?
# ----------------------------------------------------------------------------------
class _LineAccess(ast.NodeVisitor):
    def __init__(self):
        self.by_line = {}  # lineno -> list of (attr, 'R'|'W', base-name)
        self.func_of_line = {}

    def add(self, node, attr, rw, base):
        self.by_line.setdefault(node.lineno, []).append((attr, rw, base))

    def _base(self, node):
        # name at the root of an attribute chain
        while isinstance(node, (ast.Attribute, ast.Subscript, ast.Call)):
            node = node.value if not isinstance(node, ast.Call) else node.func
        return node.id if isinstance(node, ast.Name) else None

    def visit_FunctionDef(self, node):
        for n in ast.walk(node):
            if hasattr(n, "lineno"):
                self.func_of_line.setdefault(n.lineno, node.name)
        self.generic_visit(node)

    visit_AsyncFunctionDef = visit_FunctionDef

    def visit_Attribute(self, node):
        rw = "W" if isinstance(node.ctx, (ast.Store, ast.Del)) else "R"
        self.add(node, node.attr, rw, self._base(node.value))
        self.generic_visit(node)

    def visit_Subscript(self, node):
        if isinstance(node.ctx, (ast.Store, ast.Del)):
            v = node.value
            while isinstance(v, ast.Subscript):
                v = v.value
            if isinstance(v, ast.Attribute):
                self.add(node, v.attr, "W", self._base(v.value))
        self.generic_visit(node)

    def visit_AugAssign(self, node):
        t = node.target
        while isinstance(t, ast.Subscript):
            t = t.value
        if isinstance(t, ast.Attribute):
            self.add(node, t.attr, "W", self._base(t.value))
        self.generic_visit(node)

    def visit_Call(self, node):
        f = node.func
        if isinstance(f, ast.Attribute) and f.attr in MUTATING_METHODS:
            v = f.value
            while isinstance(v, ast.Subscript):
                v = v.value
            if isinstance(v, ast.Attribute):
                self.add(node, v.attr, "W", self._base(v.value))
        self.generic_visit(node)


_ACCESS_CACHE = {}


def line_access(filename):
    if filename not in _ACCESS_CACHE:
        v = _LineAccess()
        try:
            v.visit(ast.parse(open(filename).read()))
        except Exception:
            pass
        _ACCESS_CACHE[filename] = v
    return _ACCESS_CACHE[filename]


def assigned_attrs():
    """Attributes the current source assigns anywhere outside constructors: the
    shared-mutable field set is recomputed from the tree on every run."""
    out = set()
    for dp, _, fs in os.walk(LIB_ROOT):
        for f in fs:
            if f.endswith(".py"):
                la = line_access(os.path.join(dp, f))
                for ln, accs in la.by_line.items():
                    if la.func_of_line.get(ln) in ("__init__", "__init_subclass__"):
                        continue
                    for attr, rw, base in accs:
                        if rw == "W":
                            out.add(attr)
    return out


# ----------------------------------------------------------------------------------
# dynamic part: recorder, lock proxies, scheduler
# ----------------------------------------------------------------------------------
class DeadlockDetected(BaseException):
    pass


class Recorder:
    def __init__(self):
        self.events = {}  # logical thread -> list of events
        self.names = {}  # ident -> logical thread
        self.baton = None
        self.shared = (assigned_attrs() | {"_data"}) - BENIGN_ATTRS
        self.enabled = True
        self.objnames = {}
        self.depth = {}  # logical thread -> how many suspend-counter contexts it has entered itself

    def me(self):
        return self.names.get(threading.get_ident())

    def name_of(self, obj):
        """Stable name of an object across separately recorded traces: registered
        objects by role, anything else by its type (coarser, never finer)."""
        n = self.objnames.get(id(obj))
        return n if n is not None else f"any:{type(obj).__name__}"

    def register(self, obj, name):
        self.objnames[id(obj)] = name

    def emit(self, kind, accesses=(), where=None, lock=None):
        t = self.me()
        if t is None or not self.enabled:
            return
        if self.baton is not None:
            self.baton.step(t)
        self.events.setdefault(t, []).append({"kind": kind, "acc": tuple(accesses), "where": where, "lock": lock, "win": self.window(t)})

    def window(self, t):
        """(this thread holds the suspend counter, name of the function the innermost
        _load frame is calling) -- where in a load the thread is, used to tell a known
        preemption window from a new one."""
        raised = self.depth.get(t, 0) > 0
        callee = None
        try:
            f = sys._getframe(2)
            below = None
            while f is not None:
                if f.f_code.co_name == "_load" and f.f_code.co_filename.startswith(LIB_ROOT):
                    callee = below.f_code.co_name if below is not None else "_load"
                    break
                if f.f_code.co_filename.startswith(LIB_ROOT):
                    below = f
                f = f.f_back
        except Exception:
            callee = "?"
        return (raised, callee)

    # -- line tracer -----------------------------------------------------------
    def tracer(self, frame, event, arg):
        fn = frame.f_code.co_filename
        if not fn.startswith(LIB_ROOT):
            return None
        name = frame.f_code.co_name
        if event == "call" and name in ("__enter__", "__exit__"):
            so = frame.f_locals.get("self")
            if so is not None and str(self.objnames.get(id(so), "")).startswith("suspend:"):
                t = self.me()
                if t is not None:
                    self.depth[t] = self.depth.get(t, 0) + (1 if name == "__enter__" else -1)
        return self._local

    def _local(self, frame, event, arg):
        if event != "line":
            return self._local
        fn = frame.f_code.co_filename
        la = line_access(fn)
        accs = la.by_line.get(frame.f_lineno, ())
        out = []
        in_ctor = la.func_of_line.get(frame.f_lineno) == "__init__"
        for attr, rw, base in accs:
            if attr not in self.shared:
                continue
            if in_ctor and base == "self" and attr not in BUF_ATTRS:
                continue  # a constructor initialising its own fresh object: thread-local
            recv = frame.f_locals.get(base) if base else None
            loc = self.location(attr, recv, frame)
            if loc is not None:
                out.append((loc, rw))
        self.emit("line", out, (os.path.relpath(fn, LIB_ROOT), frame.f_lineno))
        return self._local

    def location(self, attr, recv, frame):
        if attr == "_data":
            root = None
            if recv is not None:
                try:
                    r = object.__getattribute__(recv, "_root")
                    root = r if r is not None else recv
                except Exception:
                    root = None
            return ("MEM", self.name_of(root) if root is not None else "?")
        if attr == "_count":
            return ("COUNT", self.name_of(recv) if recv is not None else "?")
        if attr in BUF_ATTRS:
            return ("BUF", attr)
        if attr.startswith("__"):
            return None
        return ("ATTR", attr, self.name_of(recv) if recv is not None and not isinstance(recv, type) else "cls")


REC = None


ALL_TLOCKS = []


def leaked_locks():
    """Names of lock proxies that another thread cannot take right now (called from the
    main thread after both program threads have finished)."""
    out = []
    for l in list(ALL_TLOCKS):
        res = {}

        def probe(l=l, res=res):
            ok = l.real.acquire(timeout=0.3)
            if ok:
                l.real.release()
            res["ok"] = ok

        th = threading.Thread(target=probe, daemon=True)
        th.start()
        th.join(2.0)
        if not res.get("ok"):
            out.append(l.name)
    return sorted(out)


class TLock:
    """Logging proxy around a real RLock; in replay mode acquisition goes through the
    baton scheduler and uses a timeout so that a real deadlock is detected."""

    def __init__(self, name):
        self.name = name
        self.real = threading.RLock()
        ALL_TLOCKS.append(self)

    def acquire(self, blocking=True, timeout=-1):
        if REC is not None:
            REC.emit("acq", lock=self.name)
        if REC is not None and REC.baton is not None:
            ok = self.real.acquire(timeout=REC.baton.lock_timeout)
            if not ok:
                REC.baton.hang = True
                raise DeadlockDetected(self.name)
            return True
        return self.real.acquire(blocking, timeout)

    def release(self):
        self.real.release()
        if REC is not None:
            REC.emit("rel", lock=self.name)

    def __enter__(self):
        self.acquire()
        return True

    def __exit__(self, *a):
        self.release()


class _LockDict(dict):
    """cls._locks replacement: every lock created for a file is a TLock."""

    def __setitem__(self, k, v):
        if not isinstance(v, TLock):
            v = TLock(f"file:{os.path.basename(str(k))}")
        dict.__setitem__(self, k, v)


class Baton:
    def __init__(self, order, lock_timeout=3.0):
        self.order = list(order)
        self.pos = 0
        self.cv = threading.Condition()
        self.done = set()
        self.diverged = False
        self.hang = False
        self.lock_timeout = lock_timeout

    def step(self, t):
        with self.cv:
            deadline = time.time() + 2.0
            while not self.diverged and self.pos < len(self.order):
                nxt = self.order[self.pos]
                if nxt == t:
                    break
                if nxt in self.done:
                    self.pos += 1
                    continue
                left = deadline - time.time()
                if left <= 0:
                    self.diverged = True
                    break
                self.cv.wait(left)
            if self.pos < len(self.order) and self.order[self.pos] == t:
                self.pos += 1
            self.cv.notify_all()

    def finish(self, t):
        with self.cv:
            self.done.add(t)
            self.cv.notify_all()


# ----------------------------------------------------------------------------------
# world: real environment with lock proxies and FS logging
# ----------------------------------------------------------------------------------
def install_locks(env):
    """Replace every lock of the library classes by logging proxies."""
    from . import env_model

    del ALL_TLOCKS[:]
    for c in env_model.all_lib_classes():
        d = c.__dict__
        if "_cls_lock" in d:
            c._cls_lock = TLock(f"{c.__name__}._cls_lock")
        if "_BUFFER_LOCK" in d and hasattr(d["_BUFFER_LOCK"], "acquire"):
            c._BUFFER_LOCK = TLock(f"{c.__name__}._BUFFER_LOCK")
        if "_locks" in d:
            c._locks = _LockDict()


def fs_hook(env):
    fs = env.fs
    orig_op = fs._op

    def op(kind, name):
        if REC is not None:
            base = os.path.basename(str(name))
            tgt = base.split("_", 2)[-1] if base.startswith("._") else base
            if kind in ("open_r", "read", "stat"):
                REC.emit("file", [(("FILE", tgt), "R")], ("fs", kind))
            elif kind in ("replace", "remove") or (kind in ("open_w", "write", "close", "flush") and not base.startswith("._")):
                REC.emit("file", [(("FILE", tgt), "W")], ("fs", kind))
        return orig_op(kind, name)

    fs._op = op


def run_traced(logical, fn):
    """Run fn() in the current thread as logical thread `logical` under the tracer."""
    REC.names[threading.get_ident()] = logical
    sys.settrace(REC.tracer)
    try:
        try:
            return ("ok", fn())
        except DeadlockDetected as e:
            return ("hang", repr(e))
        except Exception as e:
            return ("exc", type(e).__name__)
    finally:
        sys.settrace(None)
        if REC.baton is not None:
            REC.baton.finish(logical)
        REC.names.pop(threading.get_ident(), None)


# ----------------------------------------------------------------------------------
# solving
# ----------------------------------------------------------------------------------
def _sections(events):
    """Outermost critical sections per lock: (lock, i_acq, i_rel or None)."""
    depth = {}
    start = {}
    out = []
    for i, e in enumerate(events):
        if e["kind"] == "acq":
            d = depth.get(e["lock"], 0)
            if d == 0:
                start[e["lock"]] = i
            depth[e["lock"]] = d + 1
        elif e["kind"] == "rel":
            d = depth.get(e["lock"], 0) - 1
            depth[e["lock"]] = d
            if d == 0:
                out.append((e["lock"], start.pop(e["lock"]), i))
    for l, i in start.items():
        out.append((l, i, None))
    return out


def conflict_classes(t1, t2):
    """Pairs of conflicting accesses grouped by (location kind, rw1, rw2)."""
    idx1, idx2 = {}, {}
    for i, e in enumerate(t1):
        for loc, rw in e["acc"]:
            idx1.setdefault(loc, []).append((i, rw))
    for j, e in enumerate(t2):
        for loc, rw in e["acc"]:
            idx2.setdefault(loc, []).append((j, rw))
    classes = {}
    for loc in idx1:
        if loc not in idx2:
            continue
        for i, a in idx1[loc]:
            for j, b in idx2[loc]:
                if a == "W" or b == "W":
                    classes.setdefault((loc[0], a, b), []).append((i, j, loc))
    return classes


def relevant(events):
    """Indices of events that can matter for an ordering query (lock events and events
    with shared accesses); a thread runs through its other lines without interruption."""
    return [i for i, e in enumerate(events) if e["kind"] != "line" or e["acc"]]


def expand(order, full1, rel1, full2, rel2):
    """Witness order over relevant events -> schedule over all events."""
    nxt = {1: 0, 2: 0}
    cnt = {1: 0, 2: 0}
    rel = {1: rel1, 2: rel2}
    full = {1: full1, 2: full2}
    out = []
    for t in order:
        k = cnt[t]
        cnt[t] += 1
        upto = rel[t][k] + 1
        out.extend([t] * (upto - nxt[t]))
        nxt[t] = upto
    for t in (1, 2):
        out.extend([t] * (len(full[t]) - nxt[t]))
    return out


class OrderProblem:
    def __init__(self, full1, full2):
        self.full1, self.full2 = full1, full2
        self.rel1, self.rel2 = relevant(full1), relevant(full2)
        t1 = [full1[i] for i in self.rel1]
        t2 = [full2[j] for j in self.rel2]
        self.t1, self.t2 = t1, t2
        self.p1 = [z3.Int(f"a{i}") for i in range(len(t1))]
        self.p2 = [z3.Int(f"b{j}") for j in range(len(t2))]
        self.s = z3.Solver()
        self.s.set("timeout", 60000)
        self.queries = 0
        self.solver_s = 0.0
        n = len(t1) + len(t2)
        for p in self.p1 + self.p2:
            self.s.add(p >= 0, p < n)
        for i in range(len(t1) - 1):
            self.s.add(self.p1[i] < self.p1[i + 1])
        for j in range(len(t2) - 1):
            self.s.add(self.p2[j] < self.p2[j + 1])
        self.s.add(z3.Distinct(*(self.p1 + self.p2)))
        # mutual exclusion
        s1, s2 = _sections(t1), _sections(t2)
        for l, a, b in s1:
            for l2, c, d in s2:
                if l != l2:
                    continue
                before = (self.p1[b] < self.p2[c]) if b is not None else z3.BoolVal(False)
                after = (self.p2[d] < self.p1[a]) if d is not None else z3.BoolVal(False)
                self.s.add(z3.Or(before, after))

    def check(self, *extra):
        t0 = time.perf_counter()
        self.s.push()
        for e in extra:
            self.s.add(e)
        r = self.s.check()
        model = self.s.model() if r == z3.sat else None
        self.s.pop()
        self.queries += 1
        self.solver_s += time.perf_counter() - t0
        return str(r), model

    def order_from(self, model):
        ev = [(model.eval(p, model_completion=True).as_long(), 1, i) for i, p in enumerate(self.p1)]
        ev += [(model.eval(p, model_completion=True).as_long(), 2, j) for j, p in enumerate(self.p2)]
        ev.sort()
        return expand([t for _, t, _ in ev], self.full1, self.rel1, self.full2, self.rel2)

    def cycles(self):
        """Yield (class-pair, verdict, order) for every pair of conflict classes that
        admits a conflict cycle op1 -> op2 -> op1 or op2 -> op1 -> op2."""
        classes = conflict_classes(self.t1, self.t2)
        keys = sorted(classes)
        for ka in keys:
            for kb in keys:
                fwd = z3.Or(*[self.p1[i] < self.p2[j] for i, j, _ in classes[ka]])
                bwd = z3.Or(*[self.p2[j] < self.p1[i] for i, j, _ in classes[kb]])
                r, m = self.check(fwd, bwd)
                yield (ka, kb), r, (self.order_from(m) if m is not None else None)


def deadlock_query(t1, t2):
    """Is there a reachable state in which both threads wait for a lock the other
    holds?  Returns (verdict, witness) with witness = (i, j) acquisition indices."""
    queries = 0
    t0 = time.perf_counter()
    acq1 = [i for i, e in enumerate(t1) if e["kind"] == "acq"]
    acq2 = [j for j, e in enumerate(t2) if e["kind"] == "acq"]

    def held(events, upto):
        depth = {}
        for e in events[:upto]:
            if e["kind"] == "acq":
                depth[e["lock"]] = depth.get(e["lock"], 0) + 1
            elif e["kind"] == "rel":
                depth[e["lock"]] = depth.get(e["lock"], 0) - 1
        return {l for l, d in depth.items() if d > 0}

    for i in acq1:
        h1 = held(t1, i)
        want1 = t1[i]["lock"]
        if want1 in h1:
            continue
        for j in acq2:
            h2 = held(t2, j)
            want2 = t2[j]["lock"]
            if want2 in h2:
                continue
            # circular wait pattern as a constraint problem over the two prefixes
            s = z3.Solver()
            a = [z3.Int(f"a{k}") for k in range(i)]
            b = [z3.Int(f"b{k}") for k in range(j)]
            for k in range(i - 1):
                s.add(a[k] < a[k + 1])
            for k in range(j - 1):
                s.add(b[k] < b[k + 1])
            if a or b:
                s.add(z3.Distinct(*(a + b))) if len(a + b) > 1 else None
            # completed and open critical sections of the prefixes exclude each other
            for l, x, y in _sections(t1[:i]):
                for l2, u, v in _sections(t2[:j]):
                    if l != l2:
                        continue
                    before = (a[y] < b[u]) if y is not None else z3.BoolVal(False)
                    after = (b[v] < a[x]) if v is not None else z3.BoolVal(False)
                    s.add(z3.Or(before, after))
            wait = z3.BoolVal(want1 in h2 and want2 in h1)
            s.add(wait)
            queries += 1
            if s.check() == z3.sat:
                return "sat", (i, j, want1, want2, sorted(h1), sorted(h2)), queries, time.perf_counter() - t0
    return "unsat", None, queries, time.perf_counter() - t0
