#!/bin/bash
# usage: tools/run_mutant.sh <seeded-dir-name> <ID> [tier]  -- apply the patch to /repo, run the check, undo.
D=/verif/seeded/$1; ID=$2; TIER=${3:-quick}
git -C /repo apply $D/patch.diff || { echo "APPLY-FAILED $1"; exit 9; }
cd /verif && timeout ${MUT_TIMEOUT:-1800} ./vcheck $ID $TIER > /tmp/mut_$1_$ID.log 2>&1; RC=$?
git -C /repo checkout -- .
echo "$1 $ID rc=$RC $(grep -c '^VIOLATION' /tmp/mut_$1_$ID.log) violations; $(grep -m1 '^VIOLATION\|^HARNESS\|^INCONCLUSIVE model' /tmp/mut_$1_$ID.log | cut -c1-200)"
exit $RC
