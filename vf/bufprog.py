"""Buffered programs: collections of one buffered family, contexts managed explicitly
(so that enter/exit can appear anywhere in a token program), plain reference documents
per file.  Shared by C05, C06, C07, C15."""
from . import hlib, ops
from .hlib import MISSING, CORRUPT, copy_tree, eq_plain, plain, same_tree, at


class BufWorld:
    def __init__(self, env, fam, which):
        self.env = env
        self.fam = fam
        self.which = which
        self.cls = fam.cls(which)
        self.objs = {}
        self.file_of = {}
        self.ref = {}
        self.stack = []  # (kind, ctx, owner-name)
        self.exit_errors = []

    # -- construction ---------------------------------------------------------
    def add_file(self, fname, doc):
        if doc is not MISSING:
            self.env.write_doc(fname, doc)
            self.ref[fname] = copy_tree(doc)
        else:
            self.ref[fname] = MISSING

    def add_obj(self, name, fname, **kw):
        self.objs[name] = self.fam.make(self.env, self.which, fname, **kw)
        self.file_of[name] = fname
        return self.objs[name]

    # -- contexts ---------------------------------------------------------------
    def enter_obj(self, name):
        ctx = self.objs[name].buffered
        ctx.__enter__()
        self.stack.append(("object", ctx, name))

    def enter_backend(self, capacity=None):
        ctx = self.cls.buffer_backend(capacity) if capacity is not None else self.cls.buffer_backend()
        ctx.__enter__()  # like a with statement: if __enter__ raises the context is not active (and __exit__ is never called)
        self.stack.append(("backend", ctx, None))

    def exit_innermost(self, exc=None):
        kind, ctx, name = self.stack.pop()
        if exc is None:
            ctx.__exit__(None, None, None)
        else:
            ctx.__exit__(type(exc), exc, None)
        return kind, name

    def exit_at(self, idx):
        kind, ctx, name = self.stack.pop(idx)
        ctx.__exit__(None, None, None)
        return kind, name

    def buffered_objs(self):
        """Names of objects that are in buffered mode right now."""
        out = set()
        for kind, _, name in self.stack:
            if kind == "backend":
                return set(self.objs)
            out.add(name)
        return out

    def files_buffered(self):
        return {self.file_of[n] for n in self.buffered_objs()}

    # -- operations -------------------------------------------------------------
    def target(self, name, child):
        o = self.objs[name]
        return o if not child else o["a" if self.which == "dict" else 0]

    def ref_target(self, name, child):
        r = self.ref[self.file_of[name]]
        return r if not child else r["a" if self.which == "dict" else 0]

    def apply(self, name, child, op, a_lib, a_ref):
        if child:
            r = self.ref[self.file_of[name]]
            k = "a" if self.which == "dict" else 0
            ok = (isinstance(r, dict) and k in r) or (isinstance(r, list) and len(r) > 0)
            if not ok or not isinstance(r[k], dict):
                return None, None  # the child position does not hold a dict any more
        try:
            r_lib = ("ok", op.fn(self.target(name, child), a_lib))
        except hlib.Crash:
            raise
        except Exception as e:
            r_lib = ("exc", e)
        if self.ref[self.file_of[name]] is MISSING:
            self.ref[self.file_of[name]] = {} if self.which == "dict" else []
        try:
            r_ref = ("ok", op.ref(self.ref_target(name, child), a_ref))
        except Exception as e:
            r_ref = ("exc", e)
        return r_lib, r_ref

    def file_ok(self, fname):
        got = self.env.read_doc(fname)
        want = self.ref[fname]
        if want is MISSING:
            return got is MISSING or (got is not CORRUPT and got in ({}, [])), got, want
        if got is MISSING and want in ({}, []):
            return True, got, want  # an empty collection and a missing file are the same logical content
        return got is not MISSING and got is not CORRUPT and same_tree(got, plain(want)), got, want

    def buffer_state(self):
        """(reported size, recomputed size, number of entries) from the class buffer."""
        cls = self.cls
        buf = cls._buffer
        if self.fam.buffered == "serialized":
            re = 0
            for e in buf.values():
                re += len(e["contents"])
        else:
            re = 0
            for e in buf.values():
                if e.get("modified"):
                    re += 1
        return cls.get_current_buffer_size(), re, len(buf)


def results_agree(op, r_lib, r_ref):
    if r_lib[0] != r_ref[0]:
        return False
    if r_lib[0] == "exc":
        return hlib.exc_class_ok(r_lib[1], r_ref[1])
    if op.name in ("iadd", "popitem"):
        return True
    a, b = plain(r_lib[1]), plain(r_ref[1])
    if op.name in ("iter", "keys") and isinstance(a, list) and isinstance(b, list):
        return sorted(a) == sorted(b)
    if op.name in ("values", "items"):
        return len(a) == len(b)
    return eq_plain(a, b)
