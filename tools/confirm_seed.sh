#!/bin/bash
# usage: tools/confirm_seed.sh C01 1   -- confirm mutant /tmp/wt_C01/out/m1.* in its scratch worktree,
# then store it as /verif/seeded/C01-m1/{patch.diff,demo.py,meta.json}
set -u
P=$1; N=$2; WT=/tmp/wt_$P; OUT=$WT/out
cd $WT || exit 2
git checkout -q -- . ; git apply --check $OUT/m$N.diff || { echo "patch does not apply"; exit 2; }
/venv/bin/python $OUT/m${N}_demo.py >/dev/null 2>&1; PRE=$?
git apply $OUT/m$N.diff
TESTS=$(/venv/bin/python -m pytest -q -p no:cacheprovider -n 6 --basetemp=/tmp/pt_$P 2>&1 | tail -1)
/venv/bin/python $OUT/m${N}_demo.py >/dev/null 2>&1; POST=$?
git checkout -q -- .
rm -rf /tmp/pt_$P
echo "$P m$N: demo pristine exit=$PRE, with change exit=$POST, tests: $TESTS"
if [ $PRE -eq 0 ] && [ $POST -ne 0 ] && echo "$TESTS" | grep -q "578 passed" && ! echo "$TESTS" | grep -q failed; then
  D=/verif/seeded/$P-m$N; mkdir -p $D
  cp $OUT/m$N.diff $D/patch.diff; cp $OUT/m${N}_demo.py $D/demo.py
  /venv/bin/python - "$OUT/m${N}_meta.json" "$D/meta.json" "$TESTS" $PRE $POST <<'PY'
import json,sys
m=json.load(open(sys.argv[1]))
m["confirmed_by_main"]={"ran":"git apply in scratch worktree; /venv/bin/python -m pytest -q -n 6 (full suite); demo with and without the change","tests":sys.argv[3],"demo_exit_pristine":int(sys.argv[4]),"demo_exit_with_change":int(sys.argv[5])}
json.dump(m,open(sys.argv[2],"w"),indent=1)
PY
  echo "KEPT $D"
else
  echo "REJECTED $P m$N"
fi
