"""C12 Every JSON value is accepted and round-trips exactly.

Engine A.
* `values`    -- value shapes up to depth 3 (empty containers and keys included) with
                 typed leaves (symbolic int, symbolic str, booleans, null, finite floats,
                 integers beyond 64 bits and beyond the float range) through the main
                 entry point of every class; a *fresh* object must return an equal
                 value with the same JSON type at every leaf.
* `entries`   -- every mutating entry point x a smaller value set.
* `overwrite` -- a stored value is replaced by an ==-equal value of another JSON type
                 (1 / True / 1.0 ...) through every replacing entry point."""
from vf import hlib, ops
from vf.hlib import FAMILIES, FAM, SLOT, MISSING, case, fail, finish, get_env, pick, plain, same_tree, copy_tree, known

PID = "C12"
WHICH = ["dict", "list"]
PARTS = [(f, w) for f in FAMILIES for w in WHICH]

SHARE_L, SHARE_D = "<shared-list>", "<shared-dict>"

SHAPES = [
    ("{a:S,b:S} one list object twice", {"a": SHARE_L, "b": SHARE_L}), ("[S,S] one dict object twice", [SHARE_D, SHARE_D]), ("[[S,S],S]", [[SHARE_L, SHARE_L], SHARE_L]),
    ("leaf", SLOT), ("{}", {}), ("[]", []), ("{p}", {"p": SLOT}), ("{'':x}", {"": SLOT}), ("[x]", [SLOT]), ("[x,y]", [SLOT, SLOT]),
    ("{p,q}", {"p": SLOT, "q": SLOT}), ("{p:{}}", {"p": {}}), ("{p:[]}", {"p": []}), ("[[]]", [[]]), ("[{}]", [{}]),
    ("{p:[x]}", {"p": [SLOT]}), ("[{p}]", [{"p": SLOT}]), ("{p:{'':x}}", {"p": {"": SLOT}}), ("[[x],{q:y}]", [[SLOT], {"q": SLOT}]),
    ("{p:{p:{p}}}", {"p": {"p": {"p": SLOT}}}), ("[[[x]]]", [[[SLOT]]]), ("{p:[{q:x}]}", {"p": [{"q": SLOT}]}), ("[{p:[x,y]}]", [{"p": [SLOT, SLOT]}]),
]
SMALL_SHAPES = [SHAPES[3], SHAPES[6], SHAPES[7], SHAPES[8], SHAPES[15], SHAPES[16], SHAPES[0], SHAPES[1]]

TYPED = [
    ("sym-int", None), ("sym-str", None), ("True", True), ("False", False), ("None", None), ("0", 0), ("1", 1), ("1.0", 1.0), ("0.0", 0.0),
    ("1.5", 1.5), ("-2.5e-300", -2.5e-300), ("1e300", 1e300), ("2**70", 2 ** 70), ("float(2**70)", float(2 ** 70)), ("-2**1100", -(2 ** 1100)),
    ("''", ""), ("'1'", "1"), ("unicode", "é\U0001F600\\\"\n"),
]
SMALL_TYPED = [TYPED[0], TYPED[1], TYPED[2], TYPED[4], TYPED[7], TYPED[12]]


class LeafSrc:
    def __init__(self, l1, l2, si, ss):
        self.vals = [l1, l2]
        self.i = 0
        self.si = si
        self.ss = ss

    def next(self):
        name, v = self.vals[self.i % 2]
        self.i += 1
        if name == "sym-int":
            return self.si
        if name == "sym-str":
            return self.ss
        return v


def fill(t, src, shared=None):
    """SHARE_L / SHARE_D stand for ONE list / dict object that appears at every marked
    position of the argument (ordinary finite JSON: `[[0] * 3] * 3`, a defaults dict used
    under two keys)."""
    shared = {} if shared is None else shared
    if isinstance(t, str) and t == SLOT:
        return src.next()
    if isinstance(t, str) and t in (SHARE_L, SHARE_D):
        if t not in shared:
            shared[t] = [src.next()] if t == SHARE_L else {"k": src.next()}
        return shared[t]
    if isinstance(t, dict):
        return {k: fill(v, src, shared) for k, v in t.items()}
    if isinstance(t, list):
        return [fill(v, src, shared) for v in t]
    return t


DICT_ENTRIES = ["ctor", "setitem_new", "setitem_replace", "update_map", "update_pairs", "update_kwargs", "setdefault_new", "reset", "nested-setitem", "nested-append"]
LIST_ENTRIES = ["ctor", "setitem", "setslice", "append", "extend_tuple", "insert", "iadd", "reset", "nested-setitem", "nested-append"]


def store(env, fam, which, entry, value):
    """Store `value` through `entry`; returns the path at which a fresh object must
    find it."""
    doc = {"p": 0, "d": {"p": 0}, "l": [0]} if which == "dict" else [0, {"p": 0}, [0]]
    if entry == "ctor":
        data = {"q": value} if which == "dict" else [value]
        obj = fam.make(env, which, "r", data=data)
        # constructor data reaches the backend with the first save
        if which == "dict":
            obj["t"] = 0
            return ("q",)
        obj.append(0)
        return (0,)
    fam.write(env, "r", doc)
    obj = fam.make(env, which, "r")
    if entry == "nested-setitem":
        obj["d" if which == "dict" else 1]["q"] = value
        return ("d" if which == "dict" else 1, "q")
    if entry == "nested-append":
        obj["l" if which == "dict" else 2].append(value)
        return ("l" if which == "dict" else 2, 1)
    op = {o.name: o for o in ops.mutators(which)}[entry]
    op.fn(obj, ops.A(v=value, w=0, i=0, j=1))
    if which == "dict":
        return ("p",) if entry == "setitem_replace" else ("q",)
    return {"setitem": (0,), "setslice": (0,), "append": (3,), "extend_tuple": (3,), "insert": (0,), "iadd": (3,), "reset": (0,)}[entry]


def check(env, fam, which, entry, value, label, args):
    try:
        path = store(env, fam, which, entry, value)
    except hlib.Crash:
        raise
    except Exception as e:
        if known(PID, {"entry": entry, "raised": type(e).__name__}, args):
            return True
        return fail(lambda: f"{fam.cls(which).__name__} {entry}: JSON value {label} = {value!r} was not accepted: {e!r}")
    try:
        fresh = fam.make(env, which, "r")()
        got = hlib.at(fresh, path)
    except hlib.Crash:
        raise
    except Exception as e:
        return fail(lambda: f"{fam.cls(which).__name__} {entry}: after storing {label} = {value!r} a fresh object fails: {e!r}")
    want = plain(value)
    if not same_tree(got, want):
        if known(PID, {"entry": entry, "mismatch": True}, args):
            return True
        return fail(lambda: f"{fam.cls(which).__name__} {entry}: stored {label} = {want!r}, a fresh object reads {got!r} (type-exact comparison)")
    return True


def values(vs: int, l1: int, si: int, ss: str) -> bool:
    """
    pre: len(ss) <= 2
    post: _
    """
    env = get_env().reset()
    fam, which = PARTS[hlib.PART % len(PARTS)]
    shape = pick(SHAPES, vs)
    # quick: every class sees every shape and every leaf kind, but only half of the
    # (shape, leaf) products (the other half is rotated onto the next class)
    leaves = TYPED if hlib.TIER == "thorough" else TYPED[(hlib.PART % 2)::2]
    a = pick(leaves, l1)
    if shape is None or a is None:
        return finish(False, True)
    b = TYPED[(TYPED.index(a) + 7) % len(TYPED)]
    value = fill(shape[1], LeafSrc(a, b, si, ss))
    entry = "setitem_new" if which == "dict" else "append"
    case(fam.cls(which).__name__, entry, shape[0], a[0])
    return finish(True, check(env, fam, which, entry, value, f"{shape[0]} with leaves {a[0]},{b[0]}", (vs, l1, si, ss)))


def entries(ei: int, vs: int, l1: int, si: int, ss: str) -> bool:
    """
    pre: len(ss) <= 2
    post: _
    """
    env = get_env().reset()
    fam, which = PARTS[hlib.PART % len(PARTS)]
    entry = pick(DICT_ENTRIES if which == "dict" else LIST_ENTRIES, ei)
    shape = pick(SMALL_SHAPES, vs)
    a = pick(SMALL_TYPED if hlib.TIER == "thorough" else SMALL_TYPED[(hlib.PART % 2)::2], l1)
    if entry is None or shape is None or a is None:
        return finish(False, True)
    value = fill(shape[1], LeafSrc(a, a, si, ss))
    case(fam.cls(which).__name__, entry, shape[0], a[0])
    return finish(True, check(env, fam, which, entry, value, f"{shape[0]} with leaf {a[0]}", (ei, vs, l1, si, ss)))


EQUALS = [("1", 1), ("True", True), ("1.0", 1.0), ("0", 0), ("False", False), ("0.0", 0.0), ("2**70", 2 ** 70), ("float(2**70)", float(2 ** 70)), ("None", None), ("''", "")]
OW_DICT = ["setitem_replace", "update_map_replace", "update_map_kwargs", "reset-same-key", "nested-in-container"]
OW_LIST = ["setitem", "setslice", "reset-same-index", "nested-in-container"]
OW_CLASSES = [(FAM["JSON"], "dict"), (FAM["JSON"], "list"), (FAM["BufferedJSONAttr"], "dict"), (FAM["MemoryBufferedJSON"], "list"), (FAM["Redis"], "dict"), (FAM["MongoDB"], "list"), (FAM["Zarr"], "dict")]


def overwrite(ei: int, ui: int, vi: int) -> bool:
    """
    post: _
    """
    env = get_env().reset()
    fam, which = OW_CLASSES[hlib.PART % len(OW_CLASSES)]
    entry = pick(OW_DICT if which == "dict" else OW_LIST, ei)
    u = pick(EQUALS, ui)
    v = pick(EQUALS, vi)
    if entry is None or u is None or v is None:
        return finish(False, True)
    cls = fam.cls(which)
    doc = {"p": u[1], "c": [u[1], {"k": u[1]}]} if which == "dict" else [u[1], [u[1], {"k": u[1]}]]
    fam.write(env, "r", doc)
    obj = fam.make(env, which, "r")
    obj()
    want = copy_tree(doc)
    try:
        if which == "dict":
            if entry == "setitem_replace":
                obj["p"] = v[1]
                want["p"] = v[1]
            elif entry == "update_map_replace":
                obj.update({"p": v[1]})
                want["p"] = v[1]
            elif entry == "update_map_kwargs":
                obj.update({}, p=v[1])
                want["p"] = v[1]
            elif entry == "reset-same-key":
                want = {"p": v[1], "c": [v[1], {"k": v[1]}]}
                obj.reset(copy_tree(want))
            else:
                want["c"] = [v[1], {"k": v[1]}]
                obj.update({"c": [v[1], {"k": v[1]}]})
        else:
            if entry == "setitem":
                obj[0] = v[1]
                want[0] = v[1]
            elif entry == "setslice":
                obj[0:1] = [v[1]]
                want[0:1] = [v[1]]
            elif entry == "reset-same-index":
                want = [v[1], [v[1], {"k": v[1]}]]
                obj.reset(copy_tree(want))
            else:
                want[1] = [v[1], {"k": v[1]}]
                obj[1] = [v[1], {"k": v[1]}]
    except hlib.Crash:
        raise
    except Exception as e:
        return finish(True, fail(lambda: f"{cls.__name__} {entry}: replacing {u[0]} by {v[0]} raised {e!r}"))
    case(cls.__name__, entry, u[0], v[0])
    fresh = fam.make(env, which, "r")()
    if not same_tree(fresh, want):
        if known(PID, {"harness": "overwrite", "entry": entry, "equal": bool(u[1] == v[1]), "same_type": type(u[1]) is type(v[1])}, (ei, ui, vi)):
            return finish(True, True)
        return finish(True, fail(lambda: f"{cls.__name__} {entry}: {u[0]} replaced by {v[0]}; a fresh object reads {fresh!r}, expected {want!r} (type-exact)"))
    return finish(True, True)


def plan(tier):
    t = 300 if tier == "quick" else 1500
    return [
        {"fn": "values", "nparts": len(PARTS), "timeout": t},
        {"fn": "entries", "nparts": len(PARTS), "timeout": t},
        {"fn": "overwrite", "nparts": len(OW_CLASSES), "timeout": t},
    ]


def smoke(tier):
    out = []
    for part in range(len(PARTS)):
        for vs in range(0, 20, 3):
            out.append(("values", (vs, (vs + part) % 18, 5, "ab"), part, len(PARTS)))
        for ei in range(10):
            out.append(("entries", (ei, ei % 6, (ei + part) % 6, 7, "x"), part, len(PARTS)))
    for part in range(len(OW_CLASSES)):
        for ei in range(4):
            for ui in range(0, 10, 3):
                out.append(("overwrite", (ei, ui, (ui + 1 + part) % 10), part, len(OW_CLASSES)))
    return out


FUNCTIONS = [
    "synced_collections.validators:json_format_validator",
    "synced_collections.validators:require_string_key",
    "synced_collections.backends.collection_json:json_attr_dict_validator",
    "synced_collections.utils:default",
    "synced_collections.data_types.synced_collection:SyncedCollection._from_base",
    "synced_collections.data_types.synced_dict:SyncedDict._update",
    "synced_collections.data_types.synced_list:SyncedList._update",
    "synced_collections.data_types.synced_dict:SyncedDict.__setitem__",
    "synced_collections.data_types.synced_list:SyncedList.__setitem__",
]
BOUNDS = {"quick": {"classes": 18, "shapes": [s[0] for s in SHAPES], "leaves": [t[0] for t in TYPED], "symbolic_leaves": "int (unbounded), str (length <= 2)", "entry_points": {"dict": DICT_ENTRIES, "list": LIST_ENTRIES}, "overwrite_pairs": [e[0] for e in EQUALS], "overwrite_entries": {"dict": OW_DICT, "list": OW_LIST}}}
BOUNDS["thorough"] = BOUNDS["quick"]
ASSUMPTIONS = [
    "the byte-level half of the claim (escapes, float repr, big-int digits) is stdlib json's behaviour: keeping JSON text symbolic is out of reach of CrossHair (measured: no verdict in 60 s for a 3-character key), so it is trusted and only exercised concretely by the real-environment replays of the smoke set -- not counted as solver coverage",
    "floats are fixed finite representatives (CrossHair models floats as reals)",
    "environment models of vf/env_model.py (type-exact structural JSON codec)",
]
OUTSIDE = ["depth > 3", "symbolic strings longer than 2", "NaN/Infinity (not JSON)"]
